module verif

go 1.23

require (
	github.com/elastic/go-txfile v0.0.0-00010101000000-000000000000
	golang.org/x/tools v0.29.0
)

require (
	github.com/gofrs/flock v0.7.1 // indirect
	github.com/magefile/mage v1.9.0 // indirect
	github.com/urso/go-bin v0.0.0-20180220135811-781c575c9f0e // indirect
	github.com/urso/magetools v0.0.0-20190919040553-290c89e0c230 // indirect
	golang.org/x/mod v0.22.0 // indirect
	golang.org/x/sync v0.10.0 // indirect
	golang.org/x/sys v0.29.0 // indirect
)

replace github.com/elastic/go-txfile => /repo
