package props

import (
	"bytes"
	"encoding/json"
	"fmt"
	"time"

	"verif/engine/core"
	"verif/engine/explore"
	"verif/engine/pagedrv"
	"verif/engine/par"
	"verif/engine/queuedrv"
	"verif/engine/sched"
)

// C13: concurrent producer and consumer on one queue.

func init() {
	explore.Scenarios["prodcons"] = mkProdConsScenario
	register(&Check{ID: "C13", Level: "model_checking", Replay: replayExplore, Run: runC13})
}

// PCParams describes one producer/consumer scenario.
type PCParams struct {
	Cfg       QCfgSpec `json:"cfg"`
	Sizes     []int    `json:"sizes"`
	FlushEach bool     `json:"flush_each"`
	AckEach   bool     `json:"ack_each"`
	Prefill   int      `json:"prefill"` // events written, flushed (and half of them ACKed) before the threads start
	Budgets   []int    `json:"budgets"` // events the consumer reads per reader transaction (cycled); default 1
	Gate      int      `json:"gate"`    // >0: the producer writes event #Gate only after the consumer has read Gate events
	Retry     bool     `json:"retry"`   // bounded file: the producer retries (after yielding) when the queue reports 'full'
}

func (p PCParams) String() string {
	return fmt.Sprintf("%s/sizes%v/flushEach=%v/ackEach=%v/prefill=%d/budgets=%v/gate=%d/retry=%v", p.Cfg, p.Sizes, p.FlushEach, p.AckEach, p.Prefill, p.Budgets, p.Gate, p.Retry)
}

type pcShared struct {
	produced, flushed, consumed int
	pdone                       bool
	viol                        []pagedrv.Violation
	events                      []byte
}

//go:norace
func (s *pcShared) add(class, format string, args ...interface{}) {
	s.viol = append(s.viol, pagedrv.Violation{Class: class, Msg: fmt.Sprintf(format, args...)})
}

//go:norace
func (s *pcShared) ev(c byte) { s.events = append(s.events, c) }

//go:norace
func (s *pcShared) setProduced(n int) { s.produced = n }

//go:norace
func (s *pcShared) setFlushed(n int) { s.flushed = n }

//go:norace
func (s *pcShared) producerDone() { s.pdone = true }

//go:norace
func (s *pcShared) isDone(total int) bool { return s.pdone && s.consumed >= total }

//go:norace
func (s *pcShared) getFlushed() int { return s.flushed }

//go:norace
func (s *pcShared) getProduced() int { return s.produced }

//go:norace
func (s *pcShared) incConsumed() int { s.consumed++; return s.consumed }

//go:norace
func (s *pcShared) failed() bool { return len(s.viol) > 0 }

//go:norace
func (s *pcShared) getConsumed() int { return s.consumed }

func mkProdConsScenario(raw json.RawMessage) (explore.Body, error) {
	var p PCParams
	if err := json.Unmarshal(raw, &p); err != nil {
		return nil, err
	}
	cfg, err := p.Cfg.cfg()
	if err != nil {
		return nil, err
	}
	return func() []pagedrv.Violation {
		sched.Quiet(true)
		env, err := queuedrv.New(cfg)
		if err != nil {
			return []pagedrv.Violation{{Class: "engine", Msg: err.Error()}}
		}
		// optional history before the threads start
		for i := 0; i < p.Prefill; i++ {
			env.Apply(Q{K: queuedrv.QWrite, A: 700})
		}
		if p.Prefill > 0 {
			env.Apply(Q{K: queuedrv.QFlush})
			env.Apply(Q{K: queuedrv.QReadAll})
			if p.Prefill > 1 {
				env.Apply(Q{K: queuedrv.QAck, A: p.Prefill / 2})
			}
		}
		if len(env.Viol) > 0 || env.Dead {
			return env.Viol
		}
		base := len(env.Events)     // events before the threads
		pending := base - env.Acked // delivered but not ACKed: the consumer ACKs them first
		total := len(p.Sizes)
		sh := &pcShared{}
		w, r, q := env.W, env.R, env.Q
		sched.LetOthersRun()
		sched.Quiet(false)

		pt := sched.Spawn("P", func() {
			for i, sz := range p.Sizes {
				if p.Gate > 0 && i == p.Gate {
					for sh.getConsumed() < p.Gate && !sh.failed() {
						sched.YieldSpin("producer waits for the consumer")
					}
				}
				data := queuedrv.EventBytes(base+i, sz)
				// with Retry, 'full' is back-pressure: wait for the consumer and try again
				retry := func(what string, call func() error) bool {
					for {
						err := call()
						if err == nil {
							return true
						}
						if p.Retry && (queuedrv.IsFull(err) || env.Tight()) && !sh.failed() {
							sh.ev('x')
							sched.YieldSpin("producer waits for space")
							continue
						}
						sh.add("prodcons/write-error", "%s of event %d failed: %v", what, i, err)
						return false
					}
				}
				if !retry("Write", func() error {
					n, err := w.Write(data)
					if err == nil && n != len(data) {
						return fmt.Errorf("short write %d", n)
					}
					return err
				}) {
					break
				}
				// Next completes the event even if its flush fails
				if err := w.Next(); err != nil && !(p.Retry && (queuedrv.IsFull(err) || env.Tight())) {
					sh.add("prodcons/write-error", "Next after event %d failed: %v", i, err)
					break
				}
				sh.setProduced(i + 1)
				sh.ev('w')
				sched.Step("producer between two writer calls")
				if p.FlushEach {
					if !retry("Flush", w.Flush) {
						break
					}
					sh.setFlushed(i + 1)
					sh.ev('f')
				}
			}
			for {
				err := w.Flush()
				if err == nil {
					break
				}
				if p.Retry && (queuedrv.IsFull(err) || env.Tight()) && !sh.failed() {
					sched.YieldSpin("producer waits for space")
					continue
				}
				sh.add("prodcons/write-error", "final Flush failed: %v", err)
				break
			}
			sh.setFlushed(total)
			sh.ev('F')
			sh.producerDone()
		})
		ct := sched.Spawn("C", func() {
			unacked := pending
			got := 0
			budgets := p.Budgets
			if len(budgets) == 0 {
				budgets = []int{1}
			}
			for round := 0; got < total && !sh.failed(); round++ {
				if err := r.Begin(); err != nil {
					sh.add("prodcons/read-error", "Reader.Begin failed: %v", err)
					return
				}
				readNow := 0
				empty := false
				for k := 0; k < budgets[round%len(budgets)] && got < total; k++ {
					n, err := r.Next()
					if err != nil {
						sh.add("prodcons/read-error", "Reader.Next failed: %v", err)
						r.Done()
						return
					}
					if n == 0 {
						empty = true
						break
					}
					if n != p.Sizes[got] {
						sh.add("prodcons/order", "consumer event %d has %d bytes; the producer's events have %v bytes", got, n, p.Sizes)
						r.Done()
						return
					}
					buf := make([]byte, n)
					m, err := r.Read(buf)
					if err != nil || m != n {
						sh.add("prodcons/read-error", "Reader.Read of event %d: n=%d err=%v", got, m, err)
						r.Done()
						return
					}
					if !bytes.Equal(buf, queuedrv.EventBytes(base+got, n)) {
						sh.add("prodcons/content", "consumer event %d differs from what the producer wrote", got)
						r.Done()
						return
					}
					got++
					unacked++
					readNow++
					sh.incConsumed()
					sh.ev('r')
					sched.Step("consumer between two reader calls")
				}
				r.Done()
				if readNow > 0 && p.AckEach {
					if err := q.ACK(uint(unacked)); err != nil {
						sh.add("prodcons/ack-error", "ACK(%d) of delivered events failed: %v", unacked, err)
						return
					}
					unacked = 0
					sh.ev('a')
				}
				if empty && readNow == 0 {
					sched.YieldSpin("consumer polls for events")
				}
			}
			if unacked > 0 && !sh.failed() {
				if err := q.ACK(uint(unacked)); err != nil {
					sh.add("prodcons/ack-error", "final ACK(%d) failed: %v", unacked, err)
				}
				sh.ev('a')
			}
		})
		sched.Join(pt)
		sched.Join(ct)
		viol := append([]pagedrv.Violation(nil), sh.viol...)
		if len(viol) == 0 {
			// everything produced was delivered and ACKed; the queue is empty and still usable
			if n, err := q.Pending(); err != nil || n != 0 {
				viol = append(viol, pagedrv.Violation{Class: "prodcons/leftover", Msg: fmt.Sprintf("after producing, delivering and ACKing %d events Pending=%d err=%v", total, n, err)})
			}
			data := queuedrv.EventBytes(base+total, 333)
			if _, err := w.Write(data); err != nil {
				viol = append(viol, pagedrv.Violation{Class: "prodcons/write-error", Msg: fmt.Sprintf("Write after the run failed: %v", err)})
			} else if err := w.Next(); err != nil {
				viol = append(viol, pagedrv.Violation{Class: "prodcons/write-error", Msg: fmt.Sprintf("Next after the run failed: %v", err)})
			} else if err := w.Flush(); err != nil {
				viol = append(viol, pagedrv.Violation{Class: "prodcons/write-error", Msg: fmt.Sprintf("Flush after the run failed: %v", err)})
			} else if err := r.Begin(); err == nil {
				n, _ := r.Next()
				buf := make([]byte, 333)
				m, _ := r.Read(buf)
				r.Done()
				if n != 333 || m != 333 || !bytes.Equal(buf, data) {
					viol = append(viol, pagedrv.Violation{Class: "prodcons/write-lost", Msg: fmt.Sprintf("an event written after the run is not delivered (size %d read %d): the writer's page was freed or unlinked", n, m)})
				}
			}
		}
		explore.SetOutcome(string(sh.events))
		return viol
	}, nil
}

func pcScenarios(quick bool) (ps []interface{}, names []string) {
	add := func(p PCParams) {
		ps = append(ps, p)
		names = append(names, p.String())
	}
	c := QCfgSpec{File: "C", Buffer: 5}
	add(PCParams{Cfg: c, Sizes: []int{500, 500}, FlushEach: true, AckEach: true})
	add(PCParams{Cfg: c, Sizes: []int{10, 1500}, FlushEach: false, AckEach: true})
	add(PCParams{Cfg: c, Sizes: []int{5000}, FlushEach: true, AckEach: true})
	add(PCParams{Cfg: c, Sizes: []int{500, 500}, FlushEach: true, AckEach: false, Prefill: 2})
	// the consumer keeps unread events known from an earlier transaction, the producer appends to the tail page meanwhile
	add(PCParams{Cfg: c, Sizes: []int{300, 300, 300}, FlushEach: true, AckEach: false, Budgets: []int{1, 2}, Gate: 2})
	// back-pressure: the producer outruns the consumer on a small bounded file and retries when the queue is full
	if !quick {
		// (thorough only: ~750 choice points per execution; the same lock leak is caught in the quick tier by C12's
		// single-threaded fill histories, where the scheduler reports the deadlock)
		add(PCParams{Cfg: QCfgSpec{File: "A", Buffer: 5}, Sizes: []int{12000, 12000, 12000, 12000, 12000}, FlushEach: true, AckEach: true, Retry: true})
		add(PCParams{Cfg: c, Sizes: []int{500, 500, 500}, FlushEach: true, AckEach: true})
		add(PCParams{Cfg: c, Sizes: []int{10, 1500, 10}, FlushEach: false, AckEach: true})
		add(PCParams{Cfg: c, Sizes: []int{992, 993}, FlushEach: true, AckEach: true, Prefill: 3})
		add(PCParams{Cfg: QCfgSpec{File: "A", Buffer: 5}, Sizes: []int{3000, 3000}, FlushEach: true, AckEach: true})
	}
	return
}

func runC13(ctx *core.Ctx, pool *par.Pool) {
	bound := 1
	ctx.SetBudget(110 * time.Second)
	if !ctx.Quick() {
		bound = 2
		ctx.SetBudget(15 * time.Minute)
	}
	ps, names := pcScenarios(ctx.Quick())
	bounds := func(i int) explore.Bounds {
		if ps[i].(PCParams).Retry { // long executions: one bound lower
			return explore.Bounds{Preempt: bound - 1}
		}
		return explore.Bounds{Preempt: bound}
	}
	execs, points, outcomes := exploreAll(ctx, pool, "prodcons", ps, names, bounds, "explore")
	if rp := racePool(ctx); rp != nil {
		rb := func(i int) explore.Bounds {
			b := bounds(i)
			if b.Preempt > 0 {
				b.Preempt--
			}
			return b
		}
		re, _, _ := exploreAll(ctx, rp, "prodcons", ps, names, rb, "explore")
		ctx.Set("race_detector_schedules", re)
	} else {
		ctx.Cap("race-detector build not available: the happens-before race pass was skipped")
	}
	ctx.Set("scenarios", len(ps))
	ctx.Set("preemption_bound", bound)
	ctx.Set("states", points)
	ctx.Set("transitions", execs)
	ctx.Set("schedules_explored", execs)
	ctx.Set("distinct_outcomes", len(outcomes))
	ctx.Set("traces_validated_against_impl", execs)
	ctx.Set("explanation", "stateless exploration of the real queue code with a producer thread, a consumer thread (reader + ACK) and the file's background writer; 'transitions' = complete schedules executed, 'states' = choice points visited")
}
