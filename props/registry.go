// Package props holds one driver + oracle per property.
package props

import (
	"encoding/json"

	"verif/engine/core"
	"verif/engine/par"
	"verif/engine/xstate"
)

// Check is the coordinator side of a property check.
type Check struct {
	ID    string
	Level string // evidence level
	Run   func(ctx *core.Ctx, pool *par.Pool)
	// Replay re-executes one replay document (the "replay" member of a replay
	// file) and returns the violations it produces.
	Replay func(doc json.RawMessage) []string
}

// Checks is the registry.
var Checks = map[string]*Check{}

func register(c *Check) { Checks[c.ID] = c }

// TaskHandlers maps task types to child handlers.
var TaskHandlers = map[string]func(raw []byte) interface{}{
	"expand": xstate.HandleExpand,
	"probe":  xstate.HandleProbe,
	"twin":   xstate.HandleTwin,
	"obs":    xstate.HandleObs,
}

// HandleTask dispatches a child task by its "type" member.
func HandleTask(raw []byte) interface{} {
	var hdr struct {
		Type string `json:"type"`
	}
	if err := json.Unmarshal(raw, &hdr); err != nil {
		return map[string]string{"engine_error": "bad task: " + err.Error()}
	}
	h := TaskHandlers[hdr.Type]
	if h == nil {
		return map[string]string{"engine_error": "unknown task type " + hdr.Type}
	}
	return h(raw)
}
