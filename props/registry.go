// Package props holds one driver + oracle per property.
package props

import (
	"encoding/json"

	"verif/engine/core"
	"verif/engine/par"
	"verif/engine/xstate"
)

// Check is the coordinator side of a property check.
type Check struct {
	ID    string
	Level string // evidence level
	Run   func(ctx *core.Ctx, pool *par.Pool)
	// Replay re-executes one replay document (the "replay" member of a replay
	// file) and returns the violations it produces.
	Replay func(doc json.RawMessage) []string
}

// Assumptions written into every evidence file (what the checks trust).
var Assumptions = map[string][]string{
	"*": {
		"the library is executed for real; package sync, sync/atomic, goroutine creation and map iteration order are replaced mechanically (cmd/instr) by scheduler-visible shims; C03 checks on every run that a sample of histories behaves identically on the uninstrumented build",
		"the file system is the in-memory simulated disk (engine/simdisk) reached through the library's own vfs.File interface and the VerifOpen hook (a copy of Open without the osfs.Open step); C18 alone uses the real Open on the real file system",
		"page contents come from a 3-symbol alphabet per page half with self-identifying stamps; event contents are a function of event number and offset",
	},
	"C01": {"page-granular persistence except the 84-byte header (torn at every byte); a write is durable once a later Sync completed; SyncNone excluded"},
	"C06": {"as C01; header tears at 13 offsets per pending header write"},
	"C02": {"sequentially consistent interleavings at the granularity of synchronisation operations, simulated I/O calls and harness yield points between API calls"},
	"C09": {"as C02; data races are detected by the Go race detector inside the enumerated schedules with scheduler hand-offs hidden from it"},
	"C13": {"as C09"},
	"C08": {"failures are injected at the vfs boundary: error before effect, short write then error, failing sync/truncate/size/mmap/munmap; reads are not failed"},
	"C16": {"random multi-byte damage is replaced by complete structured families (all single-bit flips, byte-prefix tears, fills, field substitutions)"},
}

// Checks is the registry.
var Checks = map[string]*Check{}

func register(c *Check) { Checks[c.ID] = c }

// TaskHandlers maps task types to child handlers.
var TaskHandlers = map[string]func(raw []byte) interface{}{
	"expand": xstate.HandleExpand,
	"probe":  xstate.HandleProbe,
	"twin":   xstate.HandleTwin,
	"obs":    xstate.HandleObs,
}

// HandleTask dispatches a child task by its "type" member.
func HandleTask(raw []byte) interface{} {
	var hdr struct {
		Type string `json:"type"`
	}
	if err := json.Unmarshal(raw, &hdr); err != nil {
		return map[string]string{"engine_error": "bad task: " + err.Error()}
	}
	h := TaskHandlers[hdr.Type]
	if h == nil {
		return map[string]string{"engine_error": "unknown task type " + hdr.Type}
	}
	return h(raw)
}
