package props

import (
	"encoding/json"
	"fmt"
	"math/rand"
	"os"
	"strconv"
	"strings"
	"time"

	"verif/engine/core"
	"verif/engine/explore"
	"verif/engine/pagedrv"
	"verif/engine/par"
	"verif/engine/queuedrv"
	"verif/engine/xstate"
)

// Diagnostic only (not in MANIFEST.json, decides nothing): long random
// histories over a rich alphabet with every oracle of the page driver on.
// It is a lead finder: whatever it finds is minimised by hand and turned into
// a seed state of an exhaustive search.
type RandWalkTask struct {
	Type string `json:"type"`
	Cfg  string `json:"cfg"`
	Seed int64  `json:"seed"`
	Len  int    `json:"len"`
}

type RandWalkResult struct {
	EngineError string              `json:"engine_error,omitempty"`
	Path        []pagedrv.Op        `json:"path"`
	Viol        []pagedrv.Violation `json:"viol,omitempty"`
}

func init() {
	TaskHandlers["randwalk"] = handleRandWalk
	register(&Check{ID: "XRND", Level: "model_checking", Replay: xstate.ReplayDoc, Run: runRandWalk})
}

func randAlphabet(cfg pagedrv.Cfg) []O {
	a := append([]O{}, orderAlphabet()...)
	min := 65536 / cfg.PageSize
	for _, n := range []int{min, min + min/2, 2 * min, 0} {
		a = append(a, O{K: pagedrv.OReopenWith, A: n}, O{K: pagedrv.OReopenWith, A: n, B: 1})
	}
	a = append(a, O{K: pagedrv.OAlloc, A: 1}, O{K: pagedrv.OAlloc, A: 7}, O{K: pagedrv.OFree, A: 0}, O{K: pagedrv.OFree, A: -2},
		O{K: pagedrv.OAllocFreeNew, A: 3, B: 1}, O{K: pagedrv.OFreeAll}, O{K: pagedrv.OCloseTx}, O{K: pagedrv.OWrite, A: -2, B: pagedrv.WPartial},
		O{K: pagedrv.OFreeRun, A: 10, B: 5}, O{K: pagedrv.ORollback}, O{K: pagedrv.ORollback}, O{K: pagedrv.OBegin, B: 1}, O{K: pagedrv.OBegin, B: 1})
	return a
}

func handleRandWalk(raw []byte) interface{} {
	var t RandWalkTask
	if err := json.Unmarshal(raw, &t); err != nil {
		return RandWalkResult{EngineError: err.Error()}
	}
	cfg, ok := pagedrv.CfgByName(t.Cfg)
	if !ok {
		return RandWalkResult{EngineError: "cfg"}
	}
	rng := rand.New(rand.NewSource(t.Seed))
	alpha := randAlphabet(cfg)
	var res RandWalkResult
	var env *pagedrv.Env
	var err error
	sv := xstate.Run(func() {
		env, err = pagedrv.New(cfg)
		if err != nil {
			return
		}
		env.DiskCheck = true
		env.LeakCheck = os.Getenv("VERIF_LEAK") != ""
		for i := 0; i < t.Len && !env.Dead && len(env.Viol) == 0; i++ {
			if len(res.Path) > 0 {
				hookC14(env, res.Path[len(res.Path)-1])
				if len(env.Viol) > 0 {
					break
				}
			}
			var en []O
			for _, op := range alpha {
				if env.Enabled(op) {
					en = append(en, op)
				}
			}
			if len(en) == 0 {
				break
			}
			op := en[rng.Intn(len(en))]
			res.Path = append(res.Path, op)
			env.Apply(op)
		}
	})
	if err != nil {
		return RandWalkResult{EngineError: err.Error()}
	}
	res.Viol = append(env.Viol, sv...)
	return res
}

// seedBase / walkLen let a diagnostic run use other seeds and lengths: VERIF_SEED_BASE, VERIF_WALK_LEN.
func seedBase() int64 {
	v, _ := strconv.ParseInt(os.Getenv("VERIF_SEED_BASE"), 10, 64)
	return v
}

func walkLen(def int) int {
	if v, err := strconv.Atoi(os.Getenv("VERIF_WALK_LEN")); err == nil && v > 0 {
		return v
	}
	return def
}

func runRandWalk(ctx *core.Ctx, pool *par.Pool) {
	ctx.SetBudget(10 * time.Minute)
	var tasks [][]byte
	var meta []RandWalkTask
	for _, cfg := range []string{"A", "B", "D", "P17", "P21", "C", "E"} {
		for s := int64(1); s <= 12000; s++ {
			t := RandWalkTask{Type: "randwalk", Cfg: cfg, Seed: seedBase() + s, Len: walkLen(80)}
			raw, _ := json.Marshal(t)
			tasks = append(tasks, raw)
			meta = append(meta, t)
		}
	}
	n := 0
	pool.Run(tasks, ctx.Deadline, 2*time.Minute, func(i int, out []byte, terr *par.TaskError) {
		if terr != nil {
			ctx.EngineError("randwalk %v: %s %s", meta[i], terr.Msg, terr.Stderr)
			return
		}
		var r RandWalkResult
		json.Unmarshal(out, &r)
		n++
		for _, v := range r.Viol {
			ctx.Violate(v.Class, fmt.Sprintf("cfg %s seed %d after [%s]: %s", meta[i].Cfg, meta[i].Seed, pagedrv.PathString(r.Path), v.Msg),
				map[string]interface{}{"kind": "path", "cfg": meta[i].Cfg, "path": r.Path, "flags": []string{"diskfmt", "c14"}})
		}
	}, nil)
	ctx.Set("walks", n)
}

// MinimizePath is a plain greedy delta-debugging loop for path documents
// (diagnostic helper: `check.sh replay XMIN <file>`).
func minimizeDoc(raw json.RawMessage) []string {
	var top struct {
		Class  string `json:"class"`
		Replay struct {
			Cfg  string       `json:"cfg"`
			Path []pagedrv.Op `json:"path"`
		} `json:"replay"`
	}
	var d struct {
		Cfg  string       `json:"cfg"`
		Path []pagedrv.Op `json:"path"`
	}
	json.Unmarshal(raw, &d)
	cfg, ok := pagedrv.CfgByName(d.Cfg)
	if !ok {
		return []string{"violation: bad cfg"}
	}
	_ = top
	classOf := func(path []pagedrv.Op) string {
		var env *pagedrv.Env
		valid := true
		sv := xstate.Run(func() {
			var err error
			env, err = pagedrv.New(cfg)
			if err != nil {
				valid = false
				return
			}
			env.DiskCheck = true
			env.LeakCheck = os.Getenv("VERIF_LEAK") != ""
			for _, op := range path {
				if env.Dead || len(env.Viol) > 0 {
					return
				}
				if !env.Enabled(op) {
					valid = false
					return
				}
				env.Apply(op)
				if !env.Dead && len(env.Viol) == 0 {
					hookC14(env, op)
				}
			}
		})
		if !valid || env == nil {
			return ""
		}
		v := append(env.Viol, sv...)
		if len(v) == 0 {
			return ""
		}
		return v[0].Class
	}
	path := d.Path
	want := classOf(path)
	fmt.Printf("class %q, %d ops\n", want, len(path))
	if want == "" {
		return nil
	}
	for chunk := len(path) / 2; chunk >= 1; {
		progress := false
		for i := 0; i+chunk <= len(path); {
			cand := append(append([]pagedrv.Op{}, path[:i]...), path[i+chunk:]...)
			if classOf(cand) == want {
				path = cand
				progress = true
			} else {
				i++
			}
		}
		if !progress || chunk > len(path) {
			chunk /= 2
		}
	}
	// simplify map orders
	for i := range path {
		if path[i].M != 0 {
			cand := append([]pagedrv.Op{}, path...)
			cand[i].M = 0
			if classOf(cand) == want {
				path = cand
			}
		}
	}
	js, _ := json.Marshal(map[string]interface{}{"kind": "path", "cfg": d.Cfg, "path": path, "flags": []string{"diskfmt"}})
	fmt.Printf("minimal (%d ops): %s\n%s\n", len(path), pagedrv.PathString(path), js)
	return []string{"violation: class=" + want + " minimal path: " + pagedrv.PathString(path)}
}

func init() {
	register(&Check{ID: "XMIN", Level: "model_checking", Replay: minimizeDoc, Run: func(*core.Ctx, *par.Pool) {}})
}

// tracePath prints the allocator snapshot after every operation of a path
// document (diagnostic helper: `check.sh replay XTRC <file>`).
func tracePath(raw json.RawMessage) []string {
	var d struct {
		Cfg  string       `json:"cfg"`
		Path []pagedrv.Op `json:"path"`
	}
	json.Unmarshal(raw, &d)
	cfg, _ := pagedrv.CfgByName(d.Cfg)
	xstate.Run(func() {
		env, err := pagedrv.New(cfg)
		if err != nil {
			return
		}
		env.DiskCheck = true
		for _, op := range d.Path {
			if env.Dead {
				return
			}
			env.Apply(op)
			s := env.F.VerifSnapshot()
			fmt.Printf("%-22s dataEnd=%d metaEnd=%d metaTotal=%d dataFree=%v metaFree=%v flPages=%v walPages=%v wal=%v size=%d viol=%d\n", op, s.DataEnd, s.MetaEnd, s.MetaTotal, s.DataFree, s.MetaFree, s.FreelistPages, s.WALMetaPages, s.WALMapping, s.Size, len(env.Viol))
		}
	})
	return nil
}

func init() {
	register(&Check{ID: "XTRC", Level: "model_checking", Replay: tracePath, Run: func(*core.Ctx, *par.Pool) {}})
}

// ---- queue-level random walker (diagnostic only, see above) ----

type QRandWalkTask struct {
	Type string   `json:"type"`
	Cfg  QCfgSpec `json:"cfg"`
	Seed int64    `json:"seed"`
	Len  int      `json:"len"`
}

type QRandWalkResult struct {
	EngineError string              `json:"engine_error,omitempty"`
	Path        []Q                 `json:"path"`
	Viol        []pagedrv.Violation `json:"viol,omitempty"`
}

func init() {
	TaskHandlers["qrandwalk"] = handleQRandWalk
	register(&Check{ID: "XQRND", Level: "model_checking", Replay: replayQueue, Run: runQRandWalk})
}

func handleQRandWalk(raw []byte) interface{} {
	var t QRandWalkTask
	if err := json.Unmarshal(raw, &t); err != nil {
		return QRandWalkResult{EngineError: err.Error()}
	}
	cfg, err := t.Cfg.cfg()
	if err != nil {
		return QRandWalkResult{EngineError: err.Error()}
	}
	rng := rand.New(rand.NewSource(t.Seed))
	alpha := queueAlphabet(cfg.File.PageSize, false)
	if cfg.File.MaxPages > 0 { // fill-until-full only on bounded files
		alpha = append(alpha, fillAlphabet(t.Cfg, false)...)
	}
	var res QRandWalkResult
	var env *queuedrv.Env
	sv := xstate.Run(func() {
		env, err = queuedrv.New(cfg)
		if err != nil {
			return
		}
		for i := 0; i < t.Len && !env.Dead && len(env.Viol) == 0; i++ {
			var en []Q
			for _, op := range alpha {
				if env.Enabled(op) {
					en = append(en, op)
				}
			}
			if len(en) == 0 {
				break
			}
			op := en[rng.Intn(len(en))]
			res.Path = append(res.Path, op)
			env.Apply(op)
			env.CheckCounters(op.String())
			if cfg.File.MaxPages > 0 {
				env.CheckSpace(op.String())
			}
			// the recorded finding F2 does not end a walk: whatever comes after it is still looked at
			kept := env.Viol[:0]
			for _, v := range env.Viol {
				if !strings.HasPrefix(v.Class, "full/stuck-after-drain") {
					kept = append(kept, v)
				}
			}
			env.Viol = kept
		}
		if !env.Dead && len(env.Viol) == 0 {
			drainProbe(env)
			kept := env.Viol[:0]
			for _, v := range env.Viol {
				if !strings.HasPrefix(v.Class, "full/stuck-after-drain") {
					kept = append(kept, v)
				}
			}
			env.Viol = kept
		}
	})
	if err != nil {
		return QRandWalkResult{EngineError: err.Error()}
	}
	res.Viol = append(env.Viol, sv...)
	return res
}

func runQRandWalk(ctx *core.Ctx, pool *par.Pool) {
	ctx.SetBudget(15 * time.Minute)
	var tasks [][]byte
	var meta []QRandWalkTask
	for _, c := range []QCfgSpec{{File: "A", Buffer: 5}, {File: "C", Buffer: 5}, {File: "B", Buffer: 6}, {File: "P17", Buffer: 5}, {File: "P21", Buffer: 5}, {File: "D", Buffer: 3}, {File: "A", Buffer: 2}} {
		for s := int64(1); s <= 3000; s++ {
			t := QRandWalkTask{Type: "qrandwalk", Cfg: c, Seed: seedBase() + s, Len: walkLen(60)}
			raw, _ := json.Marshal(t)
			tasks = append(tasks, raw)
			meta = append(meta, t)
		}
	}
	n := 0
	pool.Run(tasks, ctx.Deadline, 2*time.Minute, func(i int, out []byte, terr *par.TaskError) {
		if terr != nil {
			ctx.EngineError("qrandwalk %v: %s %s", meta[i], terr.Msg, terr.Stderr)
			return
		}
		var r QRandWalkResult
		json.Unmarshal(out, &r)
		n++
		for _, v := range r.Viol {
			ctx.Violate(v.Class, fmt.Sprintf("queue %s seed %d after [%s]: %s", meta[i].Cfg, meta[i].Seed, queuedrv.PathString(r.Path), v.Msg),
				QPathDoc{Kind: "qpath", Cfg: meta[i].Cfg, Path: r.Path, Space: true})
		}
	}, nil)
	ctx.Set("walks", n)
}

func minimizeQDoc(raw json.RawMessage) []string {
	var d QPathDoc
	json.Unmarshal(raw, &d)
	cfg, err := d.Cfg.cfg()
	if err != nil {
		return []string{"violation: bad cfg"}
	}
	classOf := func(path []Q) string {
		var env *queuedrv.Env
		valid := true
		sv := xstate.Run(func() {
			var err error
			env, err = queuedrv.New(cfg)
			if err != nil {
				valid = false
				return
			}
			for _, op := range path {
				if env.Dead || len(env.Viol) > 0 {
					return
				}
				if !env.Enabled(op) {
					valid = false
					return
				}
				env.Apply(op)
				env.CheckCounters(op.String())
				if cfg.File.MaxPages > 0 {
					env.CheckSpace(op.String())
				}
			}
		})
		if !valid || env == nil {
			return ""
		}
		v := append(env.Viol, sv...)
		if len(v) == 0 {
			return ""
		}
		return v[0].Class
	}
	path := d.Path
	want := classOf(path)
	fmt.Printf("class %q, %d ops\n", want, len(path))
	if want == "" {
		return nil
	}
	for chunk := len(path) / 2; chunk >= 1; {
		progress := false
		for i := 0; i+chunk <= len(path); {
			cand := append(append([]Q{}, path[:i]...), path[i+chunk:]...)
			if classOf(cand) == want {
				path = cand
				progress = true
			} else {
				i++
			}
		}
		if !progress || chunk > len(path) {
			chunk /= 2
		}
	}
	js, _ := json.Marshal(map[string]interface{}{"class": want, "property": "C05", "replay": QPathDoc{Kind: "qpath", Cfg: d.Cfg, Path: path, Space: true}})
	fmt.Printf("minimal (%d ops): %s\n%s\n", len(path), queuedrv.PathString(path), js)
	return []string{"violation: class=" + want + " minimal path: " + queuedrv.PathString(path)}
}

func init() {
	register(&Check{ID: "XQMIN", Level: "model_checking", Replay: minimizeQDoc, Run: func(*core.Ctx, *par.Pool) {}})
}

// ---- random histories x exhaustive fault plans / crash images at the last operation (diagnostic) ----

type RandTailTask struct {
	Type string `json:"type"`
	Mode string `json:"mode"` // "fault" | "crash"
	Cfg  string `json:"cfg"`
	Seed int64  `json:"seed"`
	Len  int    `json:"len"`
}

type RandTailResult struct {
	EngineError string           `json:"engine_error,omitempty"`
	Path        []pagedrv.Op     `json:"path"`
	Viol        []FaultViolation `json:"viol,omitempty"`
	CViol       []CrashViolation `json:"cviol,omitempty"`
	Plans       int              `json:"plans"`
}

func init() {
	TaskHandlers["randtail"] = handleRandTail
	register(&Check{ID: "XFRND", Level: "model_checking", Replay: replayFault, Run: func(ctx *core.Ctx, pool *par.Pool) { runRandTail(ctx, pool, "fault") }})
	register(&Check{ID: "XCRND", Level: "model_checking", Replay: replayCrash, Run: func(ctx *core.Ctx, pool *par.Pool) { runRandTail(ctx, pool, "crash") }})
}

// randomPath generates a violation-free random history that ends with an operation doing I/O.
func randomPath(cfg pagedrv.Cfg, seed int64, n int, resize bool) ([]pagedrv.Op, error) {
	rng := rand.New(rand.NewSource(seed))
	alpha := randAlphabet(cfg)
	if !resize { // the crash oracle does not model the header writes of a resizing open
		var a []O
		for _, op := range alpha {
			if op.K != pagedrv.OReopenWith {
				a = append(a, op)
			}
		}
		alpha = a
	}
	var path []pagedrv.Op
	var err error
	xstate.Run(func() {
		var env *pagedrv.Env
		env, err = pagedrv.New(cfg)
		if err != nil {
			return
		}
		for i := 0; i < n && !env.Dead && len(env.Viol) == 0; i++ {
			var en []O
			for _, op := range alpha {
				if op.M == 0 && env.Enabled(op) {
					en = append(en, op)
				}
			}
			if len(en) == 0 {
				break
			}
			op := en[rng.Intn(len(en))]
			path = append(path, op)
			env.Apply(op)
		}
		if env.Dead || len(env.Viol) > 0 {
			err = fmt.Errorf("history not clean: %v", env.Viol)
		}
	})
	// cut back to the last operation that issues I/O
	for len(path) > 0 {
		switch path[len(path)-1].K {
		case pagedrv.OCommit, pagedrv.ORollback, pagedrv.OCloseTx, pagedrv.OReopen, pagedrv.OReopenWith, pagedrv.OFlushTx, pagedrv.OCheckpoint:
			return path, err
		}
		path = path[:len(path)-1]
	}
	return path, err
}

func handleRandTail(raw []byte) interface{} {
	var t RandTailTask
	if err := json.Unmarshal(raw, &t); err != nil {
		return RandTailResult{EngineError: err.Error()}
	}
	cfg, ok := pagedrv.CfgByName(t.Cfg)
	if !ok {
		return RandTailResult{EngineError: "cfg"}
	}
	path, err := randomPath(cfg, t.Seed, t.Len, t.Mode == "fault")
	if err != nil || len(path) == 0 {
		return RandTailResult{Path: path} // not a usable history: skip
	}
	res := RandTailResult{Path: path}
	if t.Mode == "fault" {
		js, _ := json.Marshal(FaultTask{Type: "fault", Cfg: t.Cfg, Path: path, Bursts: []int{1, 2}})
		r := handleFault(js).(FaultResult)
		res.EngineError, res.Viol, res.Plans = r.EngineError, r.Viol, r.Plans
	} else {
		js, _ := json.Marshal(CrashTask{Type: "crash", Cfg: t.Cfg, Path: path, MaxBits: 6, Tears: false})
		r := handleCrash(js).(CrashResult)
		res.EngineError, res.CViol, res.Plans = r.EngineError, r.Viol, r.Images
	}
	return res
}

func runRandTail(ctx *core.Ctx, pool *par.Pool, mode string) {
	ctx.SetBudget(20 * time.Minute)
	var tasks [][]byte
	var meta []RandTailTask
	for _, cfg := range []string{"A", "B", "D", "C"} {
		for s := int64(1); s <= 1500; s++ {
			t := RandTailTask{Type: "randtail", Mode: mode, Cfg: cfg, Seed: s, Len: 8 + int(s%25)}
			raw, _ := json.Marshal(t)
			tasks = append(tasks, raw)
			meta = append(meta, t)
		}
	}
	n, plans := 0, 0
	pool.Run(tasks, ctx.Deadline, 5*time.Minute, func(i int, out []byte, terr *par.TaskError) {
		if terr != nil {
			ctx.EngineError("randtail %v: %s %s", meta[i], terr.Msg, terr.Stderr)
			return
		}
		var r RandTailResult
		json.Unmarshal(out, &r)
		n++
		plans += r.Plans
		if r.EngineError != "" {
			ctx.Log("randtail %v [%s]: engine: %s", meta[i], pagedrv.PathString(r.Path), r.EngineError)
		}
		for _, v := range r.Viol {
			rec := v.Recipe
			ctx.Violate(v.Class, fmt.Sprintf("cfg %s seed %d history [%s]: %s", meta[i].Cfg, meta[i].Seed, pagedrv.PathString(r.Path), v.Msg),
				map[string]interface{}{"kind": "fault", "task": FaultTask{Type: "fault", Cfg: meta[i].Cfg, Path: r.Path, Bursts: []int{1, 2}, Only: &rec}})
		}
		for _, v := range r.CViol {
			rec := v.Recipe
			ctx.Violate(v.Class, fmt.Sprintf("cfg %s seed %d history [%s]: %s", meta[i].Cfg, meta[i].Seed, pagedrv.PathString(r.Path), v.Msg),
				map[string]interface{}{"kind": "crash", "task": CrashTask{Type: "crash", Cfg: meta[i].Cfg, Path: r.Path, MaxBits: 6, Only: &rec}})
		}
	}, nil)
	ctx.Set("histories", n)
	ctx.Set("plans_or_images", plans)
}

// ---- random queue histories x exhaustive fault plans / crash images at the last operation (diagnostic) ----

type QRandTailTask struct {
	Type string   `json:"type"`
	Mode string   `json:"mode"`
	Cfg  QCfgSpec `json:"cfg"`
	Seed int64    `json:"seed"`
	Len  int      `json:"len"`
}

type QRandTailResult struct {
	EngineError string           `json:"engine_error,omitempty"`
	Path        []Q              `json:"path"`
	Viol        []FaultViolation `json:"viol,omitempty"`
	CViol       []CrashViolation `json:"cviol,omitempty"`
	Plans       int              `json:"plans"`
}

func init() {
	TaskHandlers["qrandtail"] = handleQRandTail
	register(&Check{ID: "XQFRND", Level: "model_checking", Replay: replayQCrash, Run: func(ctx *core.Ctx, pool *par.Pool) { runQRandTail(ctx, pool, "fault") }})
	register(&Check{ID: "XQCRND", Level: "model_checking", Replay: replayQCrash, Run: func(ctx *core.Ctx, pool *par.Pool) { runQRandTail(ctx, pool, "crash") }})
}

func handleQRandTail(raw []byte) interface{} {
	var t QRandTailTask
	if err := json.Unmarshal(raw, &t); err != nil {
		return QRandTailResult{EngineError: err.Error()}
	}
	cfg, err := t.Cfg.cfg()
	if err != nil {
		return QRandTailResult{EngineError: err.Error()}
	}
	rng := rand.New(rand.NewSource(t.Seed))
	alpha := queueAlphabet(cfg.File.PageSize, false)
	var path []Q
	clean := true
	xstate.Run(func() {
		env, err := queuedrv.New(cfg)
		if err != nil {
			clean = false
			return
		}
		for i := 0; i < t.Len && !env.Dead && len(env.Viol) == 0; i++ {
			var en []Q
			for _, op := range alpha {
				if env.Enabled(op) {
					en = append(en, op)
				}
			}
			if len(en) == 0 {
				break
			}
			op := en[rng.Intn(len(en))]
			path = append(path, op)
			env.Apply(op)
		}
		clean = !env.Dead && len(env.Viol) == 0 && env.Full == 0
	})
	for len(path) > 0 {
		k := path[len(path)-1].K
		// (a Reopen under faults is not a usable last step: whether Close flushed the buffered events is not observable)
		if k == queuedrv.QFlush || k == queuedrv.QAck || k == queuedrv.QWrite || (k == queuedrv.QReopen && t.Mode != "fault") {
			break
		}
		path = path[:len(path)-1]
	}
	res := QRandTailResult{Path: path}
	if !clean || len(path) == 0 {
		return res
	}
	if t.Mode == "fault" {
		js, _ := json.Marshal(QFaultTask{Type: "qfault", Cfg: t.Cfg, Path: path})
		r := handleQFault(js).(FaultResult)
		res.EngineError, res.Viol, res.Plans = r.EngineError, r.Viol, r.Plans
	} else {
		js, _ := json.Marshal(QCrashTask{Type: "qcrash", Cfg: t.Cfg, Path: path, MaxBits: 6})
		r := handleQCrash(js).(CrashResult)
		res.EngineError, res.CViol, res.Plans = r.EngineError, r.Viol, r.Images
	}
	return res
}

func runQRandTail(ctx *core.Ctx, pool *par.Pool, mode string) {
	ctx.SetBudget(20 * time.Minute)
	var tasks [][]byte
	var meta []QRandTailTask
	for _, c := range []QCfgSpec{{File: "A", Buffer: 5}, {File: "C", Buffer: 5}, {File: "B", Buffer: 6}, {File: "D", Buffer: 3}, {File: "A", Buffer: 2}} {
		for s := int64(1); s <= 1200; s++ {
			t := QRandTailTask{Type: "qrandtail", Mode: mode, Cfg: c, Seed: s, Len: 6 + int(s%22)}
			raw, _ := json.Marshal(t)
			tasks = append(tasks, raw)
			meta = append(meta, t)
		}
	}
	n, plans := 0, 0
	pool.Run(tasks, ctx.Deadline, 5*time.Minute, func(i int, out []byte, terr *par.TaskError) {
		if terr != nil {
			ctx.EngineError("qrandtail %v: %s %s", meta[i], terr.Msg, terr.Stderr)
			return
		}
		var r QRandTailResult
		json.Unmarshal(out, &r)
		n++
		plans += r.Plans
		if r.EngineError != "" {
			ctx.Log("qrandtail %v [%s]: engine: %s", meta[i], queuedrv.PathString(r.Path), r.EngineError)
		}
		for _, v := range r.Viol {
			rec := v.Recipe
			ctx.Violate(v.Class, fmt.Sprintf("queue %s seed %d history [%s]: %s", meta[i].Cfg, meta[i].Seed, queuedrv.PathString(r.Path), v.Msg),
				map[string]interface{}{"kind": "qfault", "task": QFaultTask{Type: "qfault", Cfg: meta[i].Cfg, Path: r.Path, Only: &rec}})
		}
		for _, v := range r.CViol {
			rec := v.Recipe
			ctx.Violate(v.Class, fmt.Sprintf("queue %s seed %d history [%s]: %s", meta[i].Cfg, meta[i].Seed, queuedrv.PathString(r.Path), v.Msg),
				map[string]interface{}{"kind": "qcrash", "task": QCrashTask{Type: "qcrash", Cfg: meta[i].Cfg, Path: r.Path, MaxBits: 6, Only: &rec}})
		}
	}, nil)
	ctx.Set("histories", n)
	ctx.Set("plans_or_images", plans)
}

// ---- random schedules (diagnostic): deep interleavings beyond the preemption bounds of C02/C09/C13 ----

func init() {
	register(&Check{ID: "XSRND", Level: "model_checking", Replay: replayExplore, Run: runSchedSampling})
}

func runSchedSampling(ctx *core.Ctx, pool *par.Pool) {
	ctx.SetBudget(25 * time.Minute)
	type scen struct {
		scenario string
		p        interface{}
		name     string
	}
	var all []scen
	ps, names := lockScenarios(false)
	for i := range ps {
		all = append(all, scen{"locks", ps[i], names[i]})
	}
	ps, names = isoScenarios(false)
	for i := range ps {
		all = append(all, scen{"isolation", ps[i], names[i]})
	}
	ps, names = pcScenarios(false)
	for i := range ps {
		all = append(all, scen{"prodcons", ps[i], names[i]})
	}
	pools := []*par.Pool{pool}
	if rp := racePool(ctx); rp != nil {
		pools = append(pools, rp)
	}
	total := 0
	for pi, pl := range pools {
		runs := 400
		if pi == 1 {
			runs = 120 // race build is slower
		}
		var tasks [][]byte
		var meta []scen
		for _, sc := range all {
			if pi == 1 && sc.scenario == "isolation" {
				// C02's readers also read internal pages (every id below the data end) to catch leaks of
				// uncommitted data; under the race detector that reads free pages the writer may write
				continue
			}
			praw, _ := json.Marshal(sc.p)
			for _, sw := range []float64{0.05, 0.2} {
				for seed := int64(1); seed <= 4; seed++ {
					t := explore.Task{Type: "explore", Scenario: sc.scenario, Params: praw, Bounds: explore.Bounds{Preempt: 99}}
					t.Random.Seed, t.Random.Runs, t.Random.Switch = seed*1000+int64(sw*100), runs, sw
					raw, _ := json.Marshal(t)
					tasks = append(tasks, raw)
					meta = append(meta, sc)
				}
			}
		}
		pl.Run(tasks, ctx.Deadline, 10*time.Minute, func(i int, out []byte, terr *par.TaskError) {
			if terr != nil {
				ctx.EngineError("sampling %s: %s %s", meta[i].name, terr.Msg, terr.Stderr)
				return
			}
			var r explore.Result
			json.Unmarshal(out, &r)
			if r.EngineError != "" {
				ctx.Log("sampling %s: engine: %s", meta[i].name, r.EngineError)
			}
			total += r.Execs
			praw, _ := json.Marshal(meta[i].p)
			for _, v := range r.Viol {
				ctx.Violate(v.Class, fmt.Sprintf("scenario %s (%s), random schedule of %d choices: %s", meta[i].name, meta[i].scenario, len(v.Choices), v.Msg),
					ExploreDoc{Kind: "schedule", Scenario: meta[i].scenario, Params: praw, Choices: v.Choices, Bounds: explore.Bounds{Preempt: 99}})
			}
		}, nil)
	}
	ctx.Set("random_schedules", total)
}

// ---- random histories x (abort twin | reopen twin | every header corruption) (diagnostic) ----

type RandTwinTask struct {
	Type string `json:"type"`
	Mode string `json:"mode"` // abort | reopen | corrupt
	Cfg  string `json:"cfg"`
	Seed int64  `json:"seed"`
	Len  int    `json:"len"`
}

type RandTwinResult struct {
	EngineError string              `json:"engine_error,omitempty"`
	Doc         interface{}         `json:"doc,omitempty"`
	Desc        string              `json:"desc"`
	Viol        []pagedrv.Violation `json:"viol,omitempty"`
	Labels      []string            `json:"labels,omitempty"`
	N           int                 `json:"n"`
}

func init() {
	TaskHandlers["randtwin"] = handleRandTwin
	register(&Check{ID: "XTWIN", Level: "model_checking", Replay: xstate.ReplayDoc, Run: func(ctx *core.Ctx, pool *par.Pool) { runRandTwin(ctx, pool, []string{"abort", "reopen"}) }})
	register(&Check{ID: "XHRND", Level: "model_checking", Replay: replayCorrupt, Run: func(ctx *core.Ctx, pool *par.Pool) { runRandTwin(ctx, pool, []string{"corrupt"}) }})
}

func handleRandTwin(raw []byte) interface{} {
	var t RandTwinTask
	if err := json.Unmarshal(raw, &t); err != nil {
		return RandTwinResult{EngineError: err.Error()}
	}
	cfg, ok := pagedrv.CfgByName(t.Cfg)
	if !ok {
		return RandTwinResult{EngineError: "cfg"}
	}
	// a clean random history that ends between transactions
	path, err := randomPath(cfg, t.Seed, t.Len, false)
	for len(path) > 0 {
		k := path[len(path)-1].K
		if k == pagedrv.OCommit || k == pagedrv.ORollback || k == pagedrv.OCloseTx || k == pagedrv.OReopen {
			break
		}
		path = path[:len(path)-1]
	}
	if err != nil || len(path) == 0 {
		return RandTwinResult{}
	}
	ignore := []string(nil)
	if usesOverflow(path) {
		ignore = []string{"Stats"}
	}
	switch t.Mode {
	case "reopen":
		tw := xstate.TwinTask{Type: "twin", Cfg: t.Cfg, PathA: path, PathB: append(append([]O{}, path...), O{K: pagedrv.OReopen}), Conts: twinConts, Class: "reopen", Ignore: ignore}
		js, _ := json.Marshal(tw)
		r := xstate.HandleTwin(js).(xstate.TwinResult)
		return RandTwinResult{EngineError: r.EngineError, Viol: r.Viol, N: r.Compared, Desc: pagedrv.PathString(path), Doc: map[string]interface{}{"kind": "twin", "task": tw}}
	case "abort":
		// a random transaction body that is rolled back
		rng := rand.New(rand.NewSource(t.Seed * 7919))
		body := []O{{K: pagedrv.OBegin, B: int(t.Seed % 2)}}
		bodyOps := []O{{K: pagedrv.OAlloc, A: 1}, {K: pagedrv.OAlloc, A: 7}, {K: pagedrv.OAllocAvail, A: 0}, {K: pagedrv.OWrite, A: 0}, {K: pagedrv.OWrite, A: -1}, {K: pagedrv.OWriteAll}, {K: pagedrv.OFree, A: 0},
			{K: pagedrv.OFree, A: -1}, {K: pagedrv.OFreeEveryOther}, {K: pagedrv.OAllocFreeNew, A: 3, B: 1}, {K: pagedrv.OFlushTx}, {K: pagedrv.OCheckpoint}}
		for i := 0; i < 1+int(t.Seed%5); i++ {
			body = append(body, bodyOps[rng.Intn(len(bodyOps))])
		}
		end := O{K: pagedrv.ORollback}
		if t.Seed%3 == 0 {
			end = O{K: pagedrv.OCloseTx}
		}
		pb := append(append(append([]O{}, path...), body...), end)
		if usesOverflow(pb) {
			ignore = []string{"Stats"}
		}
		tw := xstate.TwinTask{Type: "twin", Cfg: t.Cfg, PathA: path, PathB: pb, Conts: twinConts, Class: "abort", Ignore: ignore}
		js, _ := json.Marshal(tw)
		r := xstate.HandleTwin(js).(xstate.TwinResult)
		return RandTwinResult{EngineError: r.EngineError, Viol: r.Viol, N: r.Compared, Desc: pagedrv.PathString(pb), Doc: map[string]interface{}{"kind": "twin", "task": tw}}
	default:
		for len(path) > 0 && path[len(path)-1].K != pagedrv.OCommit && path[len(path)-1].K != pagedrv.OReopen {
			path = path[:len(path)-1]
		}
		if len(path) == 0 {
			return RandTwinResult{}
		}
		ct := CorruptTask{Type: "corrupt", Cfg: t.Cfg, Path: path, Both: t.Seed%4 == 0}
		js, _ := json.Marshal(ct)
		r := handleCorrupt(js).(CorruptResult)
		return RandTwinResult{EngineError: r.EngineError, Viol: r.Viol, Labels: r.Labels, N: r.Images, Desc: pagedrv.PathString(path), Doc: ct}
	}
}

func runRandTwin(ctx *core.Ctx, pool *par.Pool, modes []string) {
	ctx.SetBudget(25 * time.Minute)
	var tasks [][]byte
	var meta []RandTwinTask
	for _, mode := range modes {
		n := int64(2000)
		if mode == "corrupt" {
			n = 300
		}
		for _, cfg := range []string{"A", "B", "D", "C"} {
			for s := int64(1); s <= n; s++ {
				t := RandTwinTask{Type: "randtwin", Mode: mode, Cfg: cfg, Seed: s, Len: 6 + int(s%30)}
				raw, _ := json.Marshal(t)
				tasks = append(tasks, raw)
				meta = append(meta, t)
			}
		}
	}
	n, cmp := 0, 0
	pool.Run(tasks, ctx.Deadline, 10*time.Minute, func(i int, out []byte, terr *par.TaskError) {
		if terr != nil {
			ctx.EngineError("randtwin %v: %s %s", meta[i], terr.Msg, terr.Stderr)
			return
		}
		var r RandTwinResult
		json.Unmarshal(out, &r)
		n++
		cmp += r.N
		if r.EngineError != "" {
			ctx.Log("randtwin %v [%s]: engine: %s", meta[i], r.Desc, r.EngineError)
		}
		for k, v := range r.Viol {
			doc := r.Doc
			if meta[i].Mode == "corrupt" && k < len(r.Labels) {
				if m, ok := doc.(map[string]interface{}); ok {
					m["only"] = r.Labels[k]
					doc = map[string]interface{}{"kind": "corrupt", "task": m}
				}
			}
			ctx.Violate(meta[i].Mode+"/"+v.Class, fmt.Sprintf("cfg %s seed %d [%s]: %s", meta[i].Cfg, meta[i].Seed, r.Desc, v.Msg), doc)
		}
	}, nil)
	ctx.Set("histories", n)
	ctx.Set("comparisons_or_images", cmp)
}
