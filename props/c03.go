package props

import (
	"verif/engine/core"
	"verif/engine/pagedrv"
	"verif/engine/par"
	"verif/engine/xstate"
)

// C03: committed state equals the sequential model.

func c03Alphabet(cfg pagedrv.Cfg, quick bool) []pagedrv.Op {
	P := pagedrv.Op{}
	_ = P
	a := []pagedrv.Op{
		{K: pagedrv.OBegin},
		{K: pagedrv.OBegin, A: 1}, // WAL limit 1: the commit checkpoints
		{K: pagedrv.OAlloc, A: 1},
		{K: pagedrv.OAlloc, A: 2},
		{K: pagedrv.OWrite, A: 0, B: pagedrv.WFull},
		{K: pagedrv.OWrite, A: 0, B: pagedrv.WPartial},
		{K: pagedrv.OWrite, A: 0, B: pagedrv.WLoad},
		{K: pagedrv.OWrite, A: -1, B: pagedrv.WFull},
		{K: pagedrv.OWrite, A: -1, B: pagedrv.WPartial},
		{K: pagedrv.OFree, A: 0},
		{K: pagedrv.OFree, A: -1},
		{K: pagedrv.OFlushPage, A: 0},
		{K: pagedrv.OFlushTx},
		{K: pagedrv.OCheckpoint},
		{K: pagedrv.OSetRoot, A: 0},
		{K: pagedrv.OCommit},
		{K: pagedrv.ORollback},
		{K: pagedrv.OReopen},
	}
	if !quick {
		a = append(a,
			pagedrv.Op{K: pagedrv.OBegin, A: 3},
			pagedrv.Op{K: pagedrv.OWrite, A: 1, B: pagedrv.WFull},
			pagedrv.Op{K: pagedrv.OWrite, A: -1, B: pagedrv.WLoad},
			pagedrv.Op{K: pagedrv.OFlushPage, A: -1},
			pagedrv.Op{K: pagedrv.OCloseTx},
		)
	}
	return a
}

func init() {
	register(&Check{ID: "C03", Level: "model_checking", Replay: xstate.ReplayPath, Run: runC03})
}

func runC03(ctx *core.Ctx, pool *par.Pool) {
	cfgs := []pagedrv.Cfg{pagedrv.CfgA, pagedrv.CfgC}
	depth := 7
	if !ctx.Quick() {
		cfgs = []pagedrv.Cfg{pagedrv.CfgA, pagedrv.CfgB, pagedrv.CfgC, pagedrv.CfgD}
		depth = 10
		ctx.SetBudget(25 * 60 * 1e9)
	} else {
		ctx.SetBudget(100 * 1e9)
	}
	total := xstate.Stats{}
	for _, cfg := range cfgs {
		st := xstate.BFS(ctx, pool, xstate.Spec{Cfg: cfg, Alphabet: c03Alphabet(cfg, ctx.Quick()), MaxDepth: depth,
			OnTransition: func(from *xstate.Node, s *xstate.Succ, isNew bool, _ *xstate.Node) {
				if isNew && from.Depth >= 3 {
					ctx.AddSample(map[string]interface{}{"cfg": cfg.Name, "history": pagedrv.PathString(append(from.Path(), s.Op))})
				}
			}})
		total.States += st.States
		total.Transitions += st.Transitions
		ctx.Set("depth_"+cfg.Name, st.Depth)
		ctx.Set("closed_"+cfg.Name, st.Closed)
	}
	ctx.Set("states", total.States)
	ctx.Set("transitions", total.Transitions)
	ctx.Set("traces_validated_against_impl", total.Transitions)
	ctx.Set("explanation", "every transition is an execution of the real (instrumented) implementation compared with the reference model; no separate model exists to conform")
}
