package props

import (
	"encoding/json"
	"fmt"
	"sort"
	"strings"

	"verif/engine/core"
	"verif/engine/explore"
	"verif/engine/pagedrv"
	"verif/engine/par"
	"verif/engine/sched"
	"verif/engine/xstate"
)

// C03: committed state equals the sequential model.

func c03Alphabet(cfg pagedrv.Cfg, quick bool) []pagedrv.Op {
	P := pagedrv.Op{}
	_ = P
	a := []pagedrv.Op{
		{K: pagedrv.OBegin},
		{K: pagedrv.OBegin, A: 1}, // WAL limit 1: the commit checkpoints
		{K: pagedrv.OAlloc, A: 1},
		{K: pagedrv.OAlloc, A: 2},
		{K: pagedrv.OWrite, A: 0, B: pagedrv.WFull},
		{K: pagedrv.OWrite, A: 0, B: pagedrv.WPartial},
		{K: pagedrv.OWrite, A: 0, B: pagedrv.WLoad},
		{K: pagedrv.OWrite, A: -1, B: pagedrv.WFull},
		{K: pagedrv.OWrite, A: -1, B: pagedrv.WPartial},
		{K: pagedrv.OFree, A: 0},
		{K: pagedrv.OFree, A: -1},
		{K: pagedrv.OFlushPage, A: 0},
		{K: pagedrv.OFlushTx},
		{K: pagedrv.OCheckpoint},
		{K: pagedrv.OSetRoot, A: 0},
		{K: pagedrv.OCommit},
		{K: pagedrv.ORollback},
		{K: pagedrv.OReopen},
	}
	if !quick {
		a = append(a,
			pagedrv.Op{K: pagedrv.OBegin, A: 3},
			pagedrv.Op{K: pagedrv.OWrite, A: 1, B: pagedrv.WFull},
			pagedrv.Op{K: pagedrv.OWrite, A: -1, B: pagedrv.WLoad},
			pagedrv.Op{K: pagedrv.OFlushPage, A: -1},
			pagedrv.Op{K: pagedrv.OCloseTx},
		)
	}
	return a
}

func init() {
	explore.Scenarios["seqpath"] = mkSeqPathScenario
	register(&Check{ID: "C03", Level: "model_checking", Replay: replayC03, Run: runC03})
}

func replayC03(raw json.RawMessage) []string {
	var hdr struct {
		Kind string `json:"kind"`
	}
	json.Unmarshal(raw, &hdr)
	if hdr.Kind == "schedule" {
		return replayExplore(raw)
	}
	return xstate.ReplayDoc(raw)
}

// wide alphabet: batches of more than 12 queued writes, two writes to one
// page in a batch (checkpoint copy + flush), many overwrite mappings
func c03WideAlphabet() []pagedrv.Op {
	return []pagedrv.Op{
		{K: pagedrv.OBegin},
		{K: pagedrv.OBegin, A: 1},
		{K: pagedrv.OAlloc, A: 14},
		{K: pagedrv.OWriteAll, B: pagedrv.WFull},
		{K: pagedrv.OWriteAll, B: pagedrv.WPartial},
		{K: pagedrv.OFreeEveryOther, A: 0},
		{K: pagedrv.OFlushTx},
		{K: pagedrv.OCheckpoint},
		{K: pagedrv.OCommit},
		{K: pagedrv.ORollback},
		{K: pagedrv.OReopen},
	}
}

// SeqPathParams: one sequential history whose background-writer timing is
// explored (main thread vs. the library's writer goroutine).
type SeqPathParams struct {
	Cfg  string       `json:"cfg"`
	Path []pagedrv.Op `json:"path"`
}

func mkSeqPathScenario(raw json.RawMessage) (explore.Body, error) {
	var p SeqPathParams
	if err := json.Unmarshal(raw, &p); err != nil {
		return nil, err
	}
	cfg, ok := pagedrv.CfgByName(p.Cfg)
	if !ok {
		return nil, fmt.Errorf("unknown cfg %s", p.Cfg)
	}
	return func() []pagedrv.Violation {
		sched.Quiet(true)
		env, err := pagedrv.New(cfg)
		if err != nil {
			return []pagedrv.Violation{{Class: "engine", Msg: err.Error()}}
		}
		sched.LetOthersRun()
		sched.Quiet(false)
		for _, op := range p.Path {
			if env.Dead {
				break
			}
			if env.Enabled(op) {
				env.Apply(op)
			}
		}
		if !env.Dead && env.T == nil && env.F != nil {
			env.Apply(pagedrv.Op{K: pagedrv.OReopen})
		}
		explore.SetOutcome(strings.Join(env.Obs, ","))
		return env.Viol
	}, nil
}

func runC03(ctx *core.Ctx, pool *par.Pool) {
	cfgs := []pagedrv.Cfg{pagedrv.CfgA, pagedrv.CfgC}
	depth, seedDepth := 7, 6
	if !ctx.Quick() {
		cfgs = []pagedrv.Cfg{pagedrv.CfgA, pagedrv.CfgB, pagedrv.CfgC, pagedrv.CfgD}
		depth, seedDepth = 9, 8
		ctx.SetBudget(15 * 60 * 1e9)
	} else {
		ctx.SetBudget(115 * 1e9)
	}
	total := xstate.Stats{}
	confPaths := map[string][][]pagedrv.Op{}
	nTrans := 0
	var flushPaths []SeqPathParams
	flushSig := map[string]bool{}
	runs := plan(cfgs, []seed{seedTwo, seedWAL, seedFrag, seedWALFreed}, depth, seedDepth)
	if ctx.Quick() {
		runs = []bfsRun{{pagedrv.CfgA, seedEmpty, depth}, {pagedrv.CfgC, seedEmpty, depth - 1}, {pagedrv.CfgA, seedTwo, seedDepth}, {pagedrv.CfgA, seedWAL, seedDepth},
			{pagedrv.CfgA, seedFrag, seedDepth - 1}, {pagedrv.CfgC, seedWAL, seedDepth - 1}, {pagedrv.CfgA, seedWALFreed, seedDepth - 1}}
	}
	for _, run := range runs {
		ctx.Share(ctx.FairShare(len(runs), 0.7))
		cfg := run.Cfg
		st := xstate.BFS(ctx, pool, xstate.Spec{Cfg: cfg, Seed: run.Seed.Ops, Alphabet: c03Alphabet(cfg, ctx.Quick()), MaxDepth: run.Depth,
			OnTransition: func(from *xstate.Node, s *xstate.Succ, isNew bool, _ *xstate.Node) {
				if isNew && from.Depth >= 3 {
					ctx.AddSample(map[string]interface{}{"cfg": cfg.Name, "history": pagedrv.PathString(append(from.Path(), s.Op))})
				}
				// conformance sample: every history of at most 3 operations past the seed, then every 97th transition
				nTrans++
				if from.Depth < 3 || nTrans%97 == 0 {
					confPaths[cfg.Name] = append(confPaths[cfg.Name], append(from.Path(), s.Op))
				}
				// histories that end a transaction which flushed: candidates for the writer-timing pass
				if s.Op.K == pagedrv.OCommit || s.Op.K == pagedrv.ORollback {
					path := append(from.Path(), s.Op)
					flushed := false
					sig := cfg.Name
					for i := len(path) - 1; i >= 0; i-- {
						sig += "," + path[i].String()
						if path[i].K == pagedrv.OFlushTx || path[i].K == pagedrv.OFlushPage || path[i].K == pagedrv.OCheckpoint {
							flushed = true
						}
						if path[i].K == pagedrv.OBegin {
							break
						}
					}
					if flushed && !flushSig[sig] {
						flushSig[sig] = true
						flushPaths = append(flushPaths, SeqPathParams{Cfg: cfg.Name, Path: path})
					}
				}
			}})
		total.States += st.States
		total.Transitions += st.Transitions
		ctx.Set("depth_"+run.name(), st.Depth)
	}
	ctx.Unshare()
	// instrumentation conformance: same histories on the plain build (real sync, free-running writer, Go's map order)
	if pp := plainPool(ctx); pp != nil {
		validated := 0
		for _, cfg := range cfgs {
			validated += xstate.Conformance(ctx, pool, pp, cfg, confPaths[cfg.Name])
		}
		pp.Close()
		ctx.Set("histories_identical_on_plain_build", validated)
	} else {
		ctx.Cap("plain build not available: conformance pass skipped")
	}
	// (iii) wide histories
	for _, cfg := range []pagedrv.Cfg{pagedrv.CfgC, pagedrv.CfgE} {
		cfg := cfg
		wd := 8
		if !ctx.Quick() {
			wd = 10
		}
		st := xstate.BFS(ctx, pool, xstate.Spec{Cfg: cfg, Alphabet: c03WideAlphabet(), MaxDepth: wd,
			OnTransition: func(from *xstate.Node, s *xstate.Succ, isNew bool, _ *xstate.Node) {
				if isNew && from.Depth >= 6 {
					ctx.AddSample(map[string]interface{}{"cfg": cfg.Name, "wide_history": pagedrv.PathString(append(from.Path(), s.Op))})
				}
			}})
		total.States += st.States
		total.Transitions += st.Transitions
		ctx.Set("wide_depth_"+cfg.Name, st.Depth)
		// the same alphabet from a file whose 14 pages all have overwrite
		// mappings: a checkpoint followed by writes to the same pages puts two
		// writes per page into one writer batch within a few steps
		sd := 5
		if !ctx.Quick() {
			sd = 7
		}
		st = xstate.BFS(ctx, pool, xstate.Spec{Cfg: cfg, Seed: seedWide.Ops, Alphabet: c03WideAlphabet(), MaxDepth: sd})
		total.States += st.States
		total.Transitions += st.Transitions
		ctx.Set("wide_seeded_depth_"+cfg.Name, st.Depth)
		ctx.Set("wide_seeded_states_"+cfg.Name, st.States)
		if ctx.Quick() {
			break
		}
	}
	// (ii) every timing of the background writer for histories that flush before they end
	var ps []interface{}
	var names []string
	sort.SliceStable(flushPaths, func(i, j int) bool { return len(flushPaths[i].Path) < len(flushPaths[j].Path) })
	maxTiming := 24
	if !ctx.Quick() {
		maxTiming = 150
	}
	for i, fp := range flushPaths {
		if i >= maxTiming {
			break
		}
		ps = append(ps, fp)
		names = append(names, fp.Cfg+":"+pagedrv.PathString(fp.Path))
	}
	wb := 2
	if !ctx.Quick() {
		wb = 3
	}
	execs, _, outcomes := exploreAll(ctx, pool, "seqpath", ps, names, func(int) explore.Bounds { return explore.Bounds{Preempt: wb, Dev: 1, EnvChoices: true} }, "explore")
	ctx.Set("writer_timing_histories", len(ps))
	ctx.Set("writer_timing_schedules", execs)
	ctx.Set("writer_timing_bound", fmt.Sprintf("%d preemptions between the harness thread and the writer goroutine, 1 environment deviation (map iteration order / signal target)", wb))
	ctx.Set("writer_timing_distinct_outcomes", len(outcomes))
	ctx.Set("states", total.States)
	ctx.Set("transitions", total.Transitions+execs)
	ctx.Set("traces_validated_against_impl", total.Transitions+execs)
	ctx.Set("explanation", "every transition is an execution of the real (instrumented) implementation compared with the reference model; no separate model exists to conform")
}
