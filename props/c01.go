package props

import (
	"crypto/sha256"
	"encoding/json"
	"fmt"
	"math/bits"
	"os"
	"sort"
	"time"

	"verif/engine/core"
	"verif/engine/pagedrv"
	"verif/engine/par"
	"verif/engine/simdisk"
	"verif/engine/xstate"

	txfile "github.com/elastic/go-txfile"
)

// C01: crash atomicity and durability. For selected transitions of the
// history graph: every I/O boundary of the last operation x every subset of
// the un-synced writes/truncates x every tear offset of a pending header
// write; each image is reopened and compared with the model.

func init() {
	xstate.Setups["iolog"] = func(e *pagedrv.Env) { e.Disk.StartLog() }
	xstate.Setups["eager"] = func(e *pagedrv.Env) { e.Eager = true }
	xstate.Setups["diskfmt"] = func(e *pagedrv.Env) { e.DiskCheck = true }
	TaskHandlers["crash"] = handleCrash
	register(&Check{ID: "C01", Level: "fault_enumeration", Replay: replayCrash, Run: runC01})
}

func crashAlphabet(quick bool) []O {
	a := []O{
		{K: pagedrv.OBegin},
		{K: pagedrv.OBegin, A: 1},
		{K: pagedrv.OAlloc, A: 1},
		{K: pagedrv.OAlloc, A: 2},
		{K: pagedrv.OWrite, A: 0, B: pagedrv.WFull},
		{K: pagedrv.OWrite, A: -1, B: pagedrv.WFull},
		{K: pagedrv.OWrite, A: 0, B: pagedrv.WPartial},
		{K: pagedrv.OFree, A: 0},
		{K: pagedrv.OFree, A: -1},
		{K: pagedrv.OFlushTx},
		{K: pagedrv.OCheckpoint},
		{K: pagedrv.OSetRoot, A: 0},
		{K: pagedrv.OCommit},
		{K: pagedrv.ORollback},
		{K: pagedrv.OReopen},
	}
	if !quick {
		a = append(a, O{K: pagedrv.OAlloc, A: 7}, O{K: pagedrv.OWriteAll, B: pagedrv.WFull}, O{K: pagedrv.OFreeEveryOther},
			O{K: pagedrv.OBegin, B: 1}, O{K: pagedrv.OWrite, A: -1, B: pagedrv.WLoad}, O{K: pagedrv.OFlushPage, A: 0})
	}
	return a
}

// CrashTask: replay Path with the disk log on, then enumerate crash images of
// the I/O issued by the last operation.
type CrashTask struct {
	Type    string `json:"type"`
	Cfg     string `json:"cfg"`
	Path    []O    `json:"path"`
	MaxBits int    `json:"max_bits"` // full subset enumeration up to this many pending units
	Tears   bool   `json:"tears"`
	Eager   bool   `json:"eager,omitempty"` // background writer drains after every operation
	// Coarse: for histories with thousands of writes in one step. Boundaries:
	// every sync, every marker, every 61st log entry and the last 8; per
	// boundary the images "nothing pending persisted", "everything pending
	// persisted" (up to the 63-unit window), "first half persisted".
	Coarse bool `json:"coarse,omitempty"`
	// Resize: the last operation is an open that changes the maximum size. Its open-time
	// transactions advance the header txid without changing the logical state, so every txid
	// between the last acknowledged commit and the txid the open ended with maps to that state.
	// Every image is recovered twice: by a plain open (limit on disk must be the old or the new
	// one) and by an open that asks for the new limit again (the restarted application).
	Resize bool `json:"resize,omitempty"`
	// Only: evaluate just this image (replay)
	Only *ImageRecipe `json:"only,omitempty"`
}

// ImageRecipe identifies one crash image of a path.
type ImageRecipe struct {
	K     int    `json:"k"`
	Mask  uint64 `json:"mask"`
	Unit  int    `json:"tear_unit"`
	Tear  int    `json:"tear"`
	Retry bool   `json:"retry,omitempty"` // Resize tasks: recovered by an open that asks for the new limit again
}

// CrashViolation is a violation plus the image that shows it.
type CrashViolation struct {
	pagedrv.Violation
	Recipe ImageRecipe `json:"recipe"`
}

// CrashResult is the answer to a CrashTask.
type CrashResult struct {
	EngineError string           `json:"engine_error,omitempty"`
	Boundaries  int              `json:"boundaries"`
	Images      int              `json:"images"`
	Distinct    int              `json:"distinct"`
	Nontrivial  int              `json:"nontrivial"`
	MaxPending  int              `json:"max_pending"`
	Capped      int              `json:"capped"` // boundaries whose subset space was capped
	Outcomes    map[string]int   `json:"outcomes"`
	Viol        []CrashViolation `json:"viol,omitempty"`
	Sample      interface{}      `json:"sample,omitempty"`
}

// masks enumerates the subsets to test for p pending units.
func masks(p, maxBits int) (out []uint64, capped bool) {
	if p == 0 {
		return []uint64{0}, false
	}
	if p <= maxBits {
		for m := uint64(0); m < 1<<uint(p); m++ {
			out = append(out, m)
		}
		return out, false
	}
	// capped: all log prefixes, all subsets of size <= 2 and their complements
	seen := map[uint64]bool{}
	add := func(m uint64) {
		full := uint64(1)<<uint(p) - 1
		m &= full
		if !seen[m] {
			seen[m] = true
			out = append(out, m)
		}
	}
	full := uint64(1)<<uint(p) - 1
	for i := 0; i <= p; i++ {
		add(uint64(1)<<uint(i) - 1)
	}
	add(0)
	for i := 0; i < p; i++ {
		add(1 << uint(i))
		add(full &^ (1 << uint(i)))
		for j := i + 1; j < p; j++ {
			add(1<<uint(i) | 1<<uint(j))
			add(full &^ (1<<uint(i) | 1<<uint(j)))
		}
	}
	return out, true
}

// checkRecovered opens a crash image and applies the C01 oracle. allowed maps
// header txids to the model state that must be exposed.
func checkRecovered(cfg pagedrv.Cfg, img []byte, allowed map[uint64]pagedrv.State, probe bool) (viol []pagedrv.Violation, outcome string) {
	return checkRecoveredResize(cfg, img, allowed, probe, nil)
}

// resizeRecovery describes how the image of a crashed resizing open is recovered.
type resizeRecovery struct {
	Old, New int  // maximum size in pages before / requested by the crashed open (0: unbounded)
	Prealloc bool // the crashed open asked for preallocation
	Retry    bool // recover with the options of the crashed open (else: plain open)
	Top      uint64
}

func checkRecoveredResize(cfg pagedrv.Cfg, img []byte, allowed map[uint64]pagedrv.State, probe bool, rz *resizeRecovery) (viol []pagedrv.Violation, outcome string) {
	var env *pagedrv.Env
	sv := xstate.Run(func() {
		d := simdisk.FromImage("crash-"+cfg.Name, cfg.PageSize, img)
		env = pagedrv.Adopt(cfg, d, pagedrv.State{})
		env.Observer = false
		var err error
		doOpen := env.Open
		if rz != nil && rz.Retry {
			o := env.Opts
			o.Flags |= txfile.FlagUpdMaxSize
			o.MaxSize = uint64(rz.New * cfg.PageSize)
			o.Prealloc = rz.Prealloc
			doOpen = func() error { return env.OpenWith(o) }
		}
		if pn := pagedrv.Try(func() { err = doOpen() }); pn != "" {
			env.Viol = append(env.Viol, pagedrv.Violation{Class: "crash/open-panic", Msg: "opening the crash image panicked: " + pn})
			outcome = "open-panic"
			return
		}
		if err != nil {
			env.Viol = append(env.Viol, pagedrv.Violation{Class: "crash/open-failed", Msg: fmt.Sprintf("opening the crash image failed: %v", err)})
			outcome = "open-failed"
			return
		}
		s := env.F.VerifSnapshot()
		t := s.Txid[s.MetaActive]
		st, ok := allowed[t]
		if rz != nil {
			// the recovering open may itself run open-time transactions on top of what it found
			if !ok && t > rz.Top && t <= rz.Top+4 {
				st, ok = allowed[rz.Top]
				allowed[t] = st
			}
			got := int(s.MaxPages)
			if rz.Retry && got != rz.New || !rz.Retry && got != rz.New && got != rz.Old {
				env.Viol = append(env.Viol, pagedrv.Violation{Class: "crash/resize-limit", Msg: fmt.Sprintf("recovered limit is %d pages (before the crashed open: %d, requested: %d, recovered by retry: %v)", got, rz.Old, rz.New, rz.Retry)})
				outcome = "wrong-limit"
				return
			}
			env.Cfg.MaxPages = got
			env.Opts.MaxSize = uint64(got * cfg.PageSize)
		}
		if !ok {
			var al []uint64
			for k := range allowed {
				al = append(al, k)
			}
			sort.Slice(al, func(i, j int) bool { return al[i] < al[j] })
			env.Viol = append(env.Viol, pagedrv.Violation{Class: "crash/wrong-transaction", Msg: fmt.Sprintf("recovered header txid %d, allowed %v", t, al)})
			outcome = "wrong-txid"
			return
		}
		outcome = fmt.Sprintf("txid+%d", t-minKey(allowed))
		env.M = pagedrv.State{Root: st.Root, Pages: map[uint64]pagedrv.Val{}}
		for k, v := range st.Pages {
			env.M.Pages[k] = v
		}
		env.LastTxid = t
		env.ByTxid[t] = st
		if !env.VerifyAgainst(st, "after crash recovery", "crash") {
			return
		}
		// independent decoding of the recovered image: free lists, metadata pages and overwrite pages
		// must be disjoint from the live pages and inside the end markers
		env.CheckDisk(st, "recovered image")
		if len(env.Viol) > 0 {
			return
		}
		env.DiskCheck = true
		if !probe {
			return
		}
		// operational probe A: allocate, write, commit
		env.Apply(O{K: pagedrv.OBegin})
		if env.Dead {
			return
		}
		before := len(env.T.New)
		env.Apply(O{K: pagedrv.OAlloc, A: 3})
		if len(env.T.New) > before {
			for _, id := range newIDs(env) {
				env.WritePage(id, pagedrv.WFull)
			}
		}
		env.Apply(O{K: pagedrv.OCommit})
		if env.Dead {
			return
		}
		// probe B: overwrite one recovered page, free another, allocate
		env.Apply(O{K: pagedrv.OBegin})
		if env.Dead {
			return
		}
		if len(env.Visible()) > 0 {
			env.Apply(O{K: pagedrv.OWrite, A: 0, B: pagedrv.WFull})
		}
		if len(env.Visible()) > 1 {
			env.Apply(O{K: pagedrv.OFree, A: -1})
		}
		env.Apply(O{K: pagedrv.OAlloc, A: 1})
		env.Apply(O{K: pagedrv.OCommit})
		if env.Dead {
			return
		}
		env.Apply(O{K: pagedrv.OReopen})
		env.CloseFile()
	})
	viol = append(env.Viol, sv...)
	for i := range viol {
		if len(viol[i].Class) < 6 || viol[i].Class[:6] != "crash/" {
			viol[i].Class = "crash/probe/" + viol[i].Class
		}
	}
	return viol, outcome
}

func minKey(m map[uint64]pagedrv.State) uint64 {
	first := true
	var min uint64
	for k := range m {
		if first || k < min {
			min, first = k, false
		}
	}
	return min
}

func newIDs(e *pagedrv.Env) []uint64 {
	var ids []uint64
	for id := range e.T.New {
		if !e.T.Freed[id] {
			ids = append(ids, id)
		}
	}
	sort.Slice(ids, func(i, j int) bool { return ids[i] < ids[j] })
	return ids
}

func handleCrash(raw []byte) interface{} {
	var t CrashTask
	if err := json.Unmarshal(raw, &t); err != nil {
		return CrashResult{EngineError: err.Error()}
	}
	cfg, ok := pagedrv.CfgByName(t.Cfg)
	if !ok {
		return CrashResult{EngineError: "unknown cfg " + t.Cfg}
	}
	if len(t.Path) == 0 {
		return CrashResult{EngineError: "empty path"}
	}
	res := CrashResult{Outcomes: map[string]int{}}
	flags := []string{"iolog"}
	if t.Eager {
		flags = append(flags, "eager")
	}
	env, sv, err := xstate.Replay(cfg, t.Path[:len(t.Path)-1], &t.Path[len(t.Path)-1], flags, nil)
	if err != nil {
		return CrashResult{EngineError: err.Error()}
	}
	if len(sv) > 0 || env.Dead {
		return CrashResult{EngineError: fmt.Sprintf("history is not replayable cleanly (%v %v)", sv, env.Viol)}
	}
	base, ops := env.Disk.Log()
	k0 := env.LastOpLog
	curCfg := env.Cfg
	var rzBase *resizeRecovery
	if t.Resize {
		last := t.Path[len(t.Path)-1]
		if last.K != pagedrv.OReopenWith {
			return CrashResult{EngineError: "resize task whose last operation is not ReopenWith"}
		}
		old := cfg.MaxPages
		for _, o := range t.Path[:len(t.Path)-1] {
			if o.K == pagedrv.OReopenWith {
				old = o.A
			}
		}
		curCfg.MaxPages = old
		rzBase = &resizeRecovery{Old: old, New: last.A, Prealloc: last.B == 1, Top: env.LastTxid}
	}
	// markers: which txids are allowed at each boundary
	seenImg := map[[32]byte]bool{}
	simdisk.Walk(base, ops, cfg.PageSize, func(cp *simdisk.CrashPoint) bool {
		if cp.K < k0 {
			return true
		}
		if t.Coarse && t.Only == nil {
			keep := cp.K >= len(ops)-8 || cp.K%61 == 0
			if cp.K > 0 && (ops[cp.K-1].Kind == simdisk.OpSync || ops[cp.K-1].Kind == simdisk.OpMarker) {
				keep = true
			}
			if !keep {
				return true
			}
		}
		// committed txid as of this boundary and whether a commit is in flight
		committed, inflight := committedAt(ops[:cp.K], env)
		allowed := map[uint64]pagedrv.State{}
		if st, ok := env.ByTxid[committed]; ok {
			allowed[committed] = st
		} else {
			res.EngineError = fmt.Sprintf("no model state for txid %d", committed)
			return false
		}
		if inflight {
			if st, ok := env.ByTxid[committed+1]; ok { // the commit in flight did succeed later
				allowed[committed+1] = st
			}
		}
		if rzBase != nil {
			if inflight {
				res.EngineError = "resize task with a commit of the driver in flight"
				return false
			}
			for x := committed + 1; x <= rzBase.Top; x++ {
				allowed[x] = allowed[committed]
			}
		}
		p := len(cp.Pending)
		if p > res.MaxPending {
			res.MaxPending = p
		}
		if p > 63 {
			p = 63
		}
		ms, capped := masks(p, t.MaxBits)
		if t.Coarse && p > 2 {
			full := uint64(1)<<uint(p) - 1
			ms, capped = []uint64{0, full, uint64(1)<<uint(p/2) - 1}, true
		}
		if capped && !t.Coarse {
			res.Capped++
		}
		res.Boundaries++
		for _, m := range ms {
			type variant struct{ unit, tear int }
			variants := []variant{{-1, -1}}
			if t.Tears {
				for i, u := range cp.Pending[:p] {
					if u.Header && m&(1<<uint(i)) != 0 {
						for tear := 1; tear < len(u.Data); tear++ {
							variants = append(variants, variant{i, tear})
						}
					}
				}
			}
			for _, v := range variants {
				rec := ImageRecipe{K: cp.K, Mask: m, Unit: v.unit, Tear: v.tear}
				if t.Only != nil && *t.Only != rec && !(rzBase != nil && t.Only.Retry && ImageRecipe{K: t.Only.K, Mask: t.Only.Mask, Unit: t.Only.Unit, Tear: t.Only.Tear} == rec) {
					continue
				}
				img := simdisk.BuildImage(cp.Durable, cp.Pending[:p], m, v.unit, v.tear)
				res.Images++
				h := sha256.Sum256(img)
				if seenImg[h] {
					continue
				}
				seenImg[h] = true
				res.Distinct++
				if m != 0 && bits.OnesCount64(m) != p || v.tear >= 0 {
					res.Nontrivial++
				}
				var viol []pagedrv.Violation
				var outcome string
				if rzBase == nil {
					viol, outcome = checkRecovered(curCfg, img, allowed, true)
				} else {
					for _, retry := range []bool{false, true} {
						if t.Only != nil && t.Only.Retry != retry {
							continue
						}
						rz := *rzBase
						rz.Retry = retry
						al := map[uint64]pagedrv.State{}
						for k, x := range allowed {
							al[k] = x
						}
						vv, oc := checkRecoveredResize(curCfg, append([]byte{}, img...), al, true, &rz)
						if retry {
							rec.Retry = true
							oc = "retry:" + oc
						}
						res.Outcomes[oc]++
						outcome = oc
						if len(vv) > 0 {
							viol = vv
							break
						}
					}
					res.Outcomes[outcome]-- // counted below once more
				}
				res.Outcomes[outcome]++
				for _, x := range viol {
					if len(res.Viol) < 20 {
						x.Msg = fmt.Sprintf("crash at I/O boundary %d of the history (operation %d..%d of the log belong to the last step), pending=%d persisted-mask=%b tear=%d/%d: %s",
							cp.K, k0, len(ops), p, m, v.unit, v.tear, x.Msg)
						res.Viol = append(res.Viol, CrashViolation{Violation: x, Recipe: rec})
					}
				}
				if res.Sample == nil && p >= 2 && m != 0 {
					res.Sample = map[string]interface{}{"history": pagedrv.PathString(t.Path), "boundary": cp.K, "pending_units": p,
						"persisted_mask": fmt.Sprintf("%b", m), "recovered": outcome}
				}
			}
		}
		return true
	})
	return res
}

// committedAt scans markers: the txid of the last commit that returned
// success before this boundary, and whether a commit is in progress.
func committedAt(ops []simdisk.Op, env *pagedrv.Env) (uint64, bool) {
	// the first header txid of the history
	first := minKeyU(env.ByTxid)
	committed := first
	inflight := false
	for _, op := range ops {
		if op.Kind != simdisk.OpMarker {
			continue
		}
		switch op.Marker {
		case "commit-begin":
			inflight = true
		case "commit-ok":
			committed = op.Arg
			inflight = false
		case "commit-fail":
			inflight = false
		}
	}
	return committed, inflight
}

func minKeyU(m map[uint64]pagedrv.State) uint64 {
	first := true
	var min uint64
	for k := range m {
		if first || k < min {
			min, first = k, false
		}
	}
	return min
}

func replayCrash(raw json.RawMessage) []string {
	var d struct {
		Task CrashTask `json:"task"`
	}
	if err := json.Unmarshal(raw, &d); err != nil || len(d.Task.Path) == 0 {
		return xstate.ReplayDoc(raw)
	}
	fmt.Printf("cfg %s history: %s\n  image: %+v\n", d.Task.Cfg, pagedrv.PathString(d.Task.Path), d.Task.Only)
	js, _ := json.Marshal(d.Task)
	r := handleCrash(js).(CrashResult)
	var out []string
	if r.EngineError != "" {
		out = append(out, "violation: engine error: "+r.EngineError)
	}
	fmt.Printf("  images evaluated: %d outcomes: %v\n", r.Images, r.Outcomes)
	for _, v := range r.Viol {
		out = append(out, fmt.Sprintf("violation: class=%s %s", v.Class, v.Msg))
	}
	return out
}

func runC01(ctx *core.Ctx, pool *par.Pool) {
	cfgs := []pagedrv.Cfg{pagedrv.CfgA, pagedrv.CfgC}
	depth, seedDepth, maxBits := 7, 6, 10
	ctx.SetBudget(120 * time.Second)
	if !ctx.Quick() {
		cfgs = []pagedrv.Cfg{pagedrv.CfgA, pagedrv.CfgB, pagedrv.CfgC, pagedrv.CfgF}
		depth, seedDepth, maxBits = 9, 8, 12
		ctx.SetBudget(15 * time.Minute)
	}
	runs := plan(cfgs, []seed{seedWAL, seedFrag, seedTail}, depth, seedDepth)
	if os.Getenv("VERIF_C01_ONLY") == "resize" { // debugging aid: only the pass over resizing opens
		runs = nil
		ctx.Cap("VERIF_C01_ONLY=resize: transaction histories skipped")
	}
	var total xstate.Stats
	images, distinct, nontrivial, boundaries, transitionsTested, capped := 0, 0, 0, 0, 0, 0
	hugeHistories := 0
	outcomes := map[string]int{}
	for _, run := range runs {
		cfg := run.Cfg
		sigs := map[string]bool{}
		var tasks []CrashTask
		share := ctx.FairShare(len(runs), 0.85) // 15% of the budget stays reserved for the resizing opens below
		endRun := ctx.Phase(share)
		endBFS := ctx.Phase(share * 4 / 10)
		st := xstate.BFS(ctx, pool, xstate.Spec{Cfg: cfg, Seed: run.Seed.Ops, Alphabet: crashAlphabet(ctx.Quick()), MaxDepth: run.Depth, Flags: []string{"iolog"},
			OnTransition: func(from *xstate.Node, s *xstate.Succ, isNew bool, to *xstate.Node) {
				if s.IOSig == "" || s.Dead {
					return
				}
				// a transaction that flushed explicitly is a shape of its own: with an eager writer its
				// pages are written (and the data sync of the commit finds nothing left to write)
				path := append(from.Path(), s.Op)
				sig, flushed := s.IOSig, false
				for i := len(path) - 1; i >= 0 && path[i].K != pagedrv.OBegin; i-- {
					if path[i].K == pagedrv.OFlushTx || path[i].K == pagedrv.OFlushPage || path[i].K == pagedrv.OCheckpoint {
						flushed = true
					}
				}
				if flushed {
					sig += "|flushed"
				}
				if sigs[sig] {
					return
				}
				sigs[sig] = true
				tasks = append(tasks, CrashTask{Type: "crash", Cfg: cfg.Name, Path: path, MaxBits: maxBits, Tears: true})
				if flushed {
					tasks = append(tasks, CrashTask{Type: "crash", Cfg: cfg.Name, Path: path, MaxBits: maxBits, Tears: true, Eager: true})
				}
			}})
		endBFS()
		total.States += st.States
		total.Transitions += st.Transitions
		ctx.Set("depth_"+run.name(), st.Depth)
		ctx.Set("io_shapes_"+run.name(), len(sigs))
		// shortest histories first
		sort.SliceStable(tasks, func(i, j int) bool { return len(tasks[i].Path) < len(tasks[j].Path) })
		if cfg.Name == "C" && run.Seed.Name == seedEmpty.Name {
			// transactions with more queued writes than the background writer takes in one batch (1024)
			huge := []O{{K: pagedrv.OBegin}, {K: pagedrv.OAlloc, A: 1100}, {K: pagedrv.OWriteAll, B: pagedrv.WFull}, {K: pagedrv.OCommit}}
			hugeTasks := []CrashTask{{Type: "crash", Cfg: cfg.Name, Path: huge, Coarse: true}, {Type: "crash", Cfg: cfg.Name, Path: huge, Coarse: true, Eager: true}}
			if !ctx.Quick() {
				over := append(append([]O{}, huge...), O{K: pagedrv.OBegin}, O{K: pagedrv.OWriteAll, B: pagedrv.WFull}, O{K: pagedrv.OCommit})
				hugeTasks = append(hugeTasks, CrashTask{Type: "crash", Cfg: cfg.Name, Path: over, Coarse: true}, CrashTask{Type: "crash", Cfg: cfg.Name, Path: over, Coarse: true, Eager: true})
			}
			tasks = append(hugeTasks, tasks...)
			hugeHistories += len(hugeTasks)
		}
		raw := make([][]byte, len(tasks))
		for i := range tasks {
			raw[i], _ = json.Marshal(tasks[i])
		}
		skipped := 0
		pool.Run(raw, ctx.Deadline, 15*time.Minute, func(i int, out []byte, terr *par.TaskError) {
			t := tasks[i]
			if terr != nil {
				ctx.EngineError("crash task [%s]: %s %s", pagedrv.PathString(t.Path), terr.Msg, terr.Stderr)
				return
			}
			var r CrashResult
			if err := json.Unmarshal(out, &r); err != nil {
				ctx.EngineError("bad crash result: %v", err)
				return
			}
			if r.EngineError != "" {
				ctx.EngineError("crash task [%s]: %s", pagedrv.PathString(t.Path), r.EngineError)
				return
			}
			transitionsTested++
			images += r.Images
			distinct += r.Distinct
			nontrivial += r.Nontrivial
			boundaries += r.Boundaries
			capped += r.Capped
			for k, v := range r.Outcomes {
				outcomes[k] += v
			}
			if r.Sample != nil {
				ctx.AddSample(r.Sample)
			}
			for _, v := range r.Viol {
				tt := t
				rec := v.Recipe
				tt.Only = &rec
				ctx.Violate(v.Class, fmt.Sprintf("cfg %s history [%s]: %s", cfg.Name, pagedrv.PathString(t.Path), v.Msg),
					map[string]interface{}{"kind": "crash", "task": tt})
			}
		}, func(int) { skipped++ })
		if skipped > 0 {
			ctx.Cap("%s: deadline reached, %d of %d I/O shapes not crash-tested", run.name(), skipped, len(tasks))
		}
		endRun()
	}
	// crash inside an open that changes the maximum size (its grow/shrink and release transactions):
	// every history "seed, [resize,] resize" on files with free tails, fragmented free lists,
	// overwrite mappings, full files and files living in their overflow area
	resizeTasks, resizeTested := 0, 0
	ctx.Unshare()
	{
		grown := seed{"grown-free-tail", []O{{K: pagedrv.OReopenWith, A: 128}, {K: pagedrv.OBegin}, {K: pagedrv.OAlloc, A: 100}, {K: pagedrv.OWriteAll}, {K: pagedrv.OCommit},
			{K: pagedrv.OBegin}, {K: pagedrv.OFreeRun, A: 40, B: 60}, {K: pagedrv.OCommit}}}
		rzAlphabet := []O{{K: pagedrv.OReopenWith, A: 64}, {K: pagedrv.OReopenWith, A: 96}, {K: pagedrv.OReopenWith, A: 128}, {K: pagedrv.OReopenWith, A: 0},
			{K: pagedrv.OReopenWith, A: 128, B: 1}, {K: pagedrv.OReopenWith, A: 64, B: 1}}
		rzDepth := 2
		if !ctx.Quick() {
			rzDepth = 3
		}
		var rzRuns []bfsRun
		for _, c := range []pagedrv.Cfg{pagedrv.CfgA, pagedrv.CfgB, pagedrv.CfgC} {
			for _, sd := range []seed{seedEmpty, seedTail, seedFrag, seedWAL, seedFull, seedOverflow, seedOverflowPartial, grown} {
				if (sd.Name == "full" || sd.Name == "overflow-used" || sd.Name == "overflow-partly-released") && c.MaxPages == 0 {
					continue
				}
				rzRuns = append(rzRuns, bfsRun{c, sd, rzDepth})
			}
		}
		var tasks []CrashTask
		for _, run := range rzRuns {
			cfg := run.Cfg
			xstate.BFS(ctx, pool, xstate.Spec{Cfg: cfg, Seed: run.Seed.Ops, Alphabet: rzAlphabet, MaxDepth: run.Depth, Flags: []string{"iolog"},
				OnTransition: func(from *xstate.Node, s *xstate.Succ, isNew bool, to *xstate.Node) {
					if s.Dead || s.Op.K != pagedrv.OReopenWith {
						return
					}
					tasks = append(tasks, CrashTask{Type: "crash", Cfg: cfg.Name, Path: append(from.Path(), s.Op), MaxBits: maxBits, Tears: true, Resize: true})
				}})
		}
		sort.SliceStable(tasks, func(i, j int) bool { return len(tasks[i].Path) < len(tasks[j].Path) })
		resizeTasks = len(tasks)
		raw := make([][]byte, len(tasks))
		for i := range tasks {
			raw[i], _ = json.Marshal(tasks[i])
		}
		skipped := 0
		pool.Run(raw, ctx.Deadline, 15*time.Minute, func(i int, out []byte, terr *par.TaskError) {
			t := tasks[i]
			if terr != nil {
				ctx.EngineError("resize crash task [%s]: %s %s", pagedrv.PathString(t.Path), terr.Msg, terr.Stderr)
				return
			}
			var r CrashResult
			if err := json.Unmarshal(out, &r); err != nil {
				ctx.EngineError("bad crash result: %v", err)
				return
			}
			if r.EngineError != "" {
				ctx.EngineError("resize crash task [%s]: %s", pagedrv.PathString(t.Path), r.EngineError)
				return
			}
			resizeTested++
			images += r.Images
			distinct += r.Distinct
			nontrivial += r.Nontrivial
			boundaries += r.Boundaries
			capped += r.Capped
			for k, v := range r.Outcomes {
				outcomes["resize:"+k] += v
			}
			for _, v := range r.Viol {
				tt := t
				rec := v.Recipe
				tt.Only = &rec
				ctx.Violate(v.Class, fmt.Sprintf("cfg %s history [%s] (crash inside the resizing open, recovered by %s): %s", t.Cfg, pagedrv.PathString(t.Path),
					map[bool]string{false: "a plain open", true: "an open that asks for the new limit again"}[rec.Retry], v.Msg),
					map[string]interface{}{"kind": "crash", "task": tt})
			}
		}, func(int) { skipped++ })
		if skipped > 0 {
			ctx.Cap("resizing opens: deadline reached, %d of %d histories not crash-tested", skipped, len(tasks))
		}
	}
	ctx.Set("resize_histories", resizeTasks)
	ctx.Set("resize_histories_crash_tested", resizeTested)
	ctx.Set("resize_rule", "last operation = an open that changes the maximum size (64/96/128 pages or unbounded, with and without preallocation); crash images of its I/O as above; each image recovered by a plain open (limit must be the old or the new one) and by an open asking for the new limit again (limit must be the new one); contents, independent decoding and probes as for every other image")
	if capped > 0 {
		ctx.Cap("%d boundaries had more than %d pending units: subsets of size <=2, their complements and all log prefixes only", capped, maxBits)
	}
	ctx.Set("states", total.States)
	ctx.Set("transitions", total.Transitions)
	ctx.Set("transitions_crash_tested", transitionsTested)
	ctx.Set("io_boundaries", boundaries)
	ctx.Set("evaluations", images)
	ctx.Set("distinct_images", distinct)
	ctx.Set("distinct_nontrivial", nontrivial)
	ctx.Set("recovery_outcomes", outcomes)
	ctx.Set("huge_transaction_histories", hugeHistories)
	ctx.Set("huge_transaction_rule", "histories with one 1100-page transaction (more queued writes than one writer batch): boundaries = every sync, every marker, every 61st log entry and the last 8; images per boundary = nothing / everything / the first half of the pending window (63 units) persisted")
	ctx.Set("rule", "crash image = contents as of the last completed sync before an I/O boundary of the last operation of a history + a subset of the later writes/truncates (page granular), header writes additionally torn at every byte offset; distinct = distinct image bytes (sha256) per history; non-trivial = a proper non-empty subset of the pending units persisted, or a torn header")
}
