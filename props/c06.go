package props

import (
	"crypto/sha256"
	"encoding/binary"
	"encoding/json"
	"fmt"
	"math/bits"
	"sort"
	"strings"
	"time"

	"verif/engine/core"
	"verif/engine/pagedrv"
	"verif/engine/par"
	"verif/engine/queuedrv"
	"verif/engine/simdisk"
	"verif/engine/xstate"
)

// C06: queue durability. Crash images (as in C01) of the I/O of flush / ACK /
// close transitions of queue histories; the recovered queue must contain
// exactly the events [acked', flushed') of the recovered transaction.

func init() {
	TaskHandlers["qcrash"] = handleQCrash
	TaskHandlers["qsig"] = handleQSig
	register(&Check{ID: "C06", Level: "fault_enumeration", Replay: replayQCrash, Run: runC06})
}

// QSigTask computes the I/O shape of the last operation of each path.
type QSigTask struct {
	Type  string   `json:"type"`
	Cfg   QCfgSpec `json:"cfg"`
	Paths [][]Q    `json:"paths"`
}

// QSigResult is the answer.
type QSigResult struct {
	EngineError string   `json:"engine_error,omitempty"`
	Sigs        []string `json:"sigs"`
}

func handleQSig(raw []byte) interface{} {
	var t QSigTask
	if err := json.Unmarshal(raw, &t); err != nil {
		return QSigResult{EngineError: err.Error()}
	}
	cfg, err := t.Cfg.cfg()
	if err != nil {
		return QSigResult{EngineError: err.Error()}
	}
	var res QSigResult
	for _, p := range t.Paths {
		sig := ""
		if len(p) > 0 {
			env, sv, err := qReplayLast(cfg, p)
			if err == nil && len(sv) == 0 && !env.Dead {
				sig = env.IOSig()
				if sig != "" {
					sig = fmt.Sprintf("%s|%s|a%d|u%d", p[len(p)-1].String(), sig, min2(env.Acked, 1), min2(env.FlushLo-env.Acked, 2))
				}
			}
		}
		res.Sigs = append(res.Sigs, sig)
	}
	return res
}

func min2(a, b int) int {
	if a < b {
		return a
	}
	return b
}

// qReplayLast replays a path with the disk log on and marks where the last
// operation starts.
func qReplayLast(cfg queuedrv.Cfg, path []Q) (*queuedrv.Env, []pagedrv.Violation, error) {
	var env *queuedrv.Env
	var err error
	sv := xstate.Run(func() {
		env, err = queuedrv.New(cfg)
		if err != nil {
			return
		}
		env.Disk.StartLog()
		for i, op := range path {
			if env.Dead {
				return
			}
			if i == len(path)-1 {
				env.LastOpLog = env.Disk.LogLen()
			}
			env.Apply(op)
		}
	})
	return env, sv, err
}

// QCrashTask enumerates crash images of the last operation of Path.
type QCrashTask struct {
	Type    string       `json:"type"`
	Cfg     QCfgSpec     `json:"cfg"`
	Path    []Q          `json:"path"`
	MaxBits int          `json:"max_bits"`
	Coarse  bool         `json:"coarse,omitempty"` // see CrashTask.Coarse
	Only    *ImageRecipe `json:"only,omitempty"`
}

func headerTxidOf(op simdisk.Op, ps int) (uint64, bool) {
	if op.Kind != simdisk.OpWrite || op.Off/int64(ps) >= 2 || len(op.Data) != pagedrv.HeaderSize {
		return 0, false
	}
	return binary.LittleEndian.Uint64(op.Data[pagedrv.OffTxid:]), true
}

func handleQCrash(raw []byte) interface{} {
	var t QCrashTask
	if err := json.Unmarshal(raw, &t); err != nil {
		return CrashResult{EngineError: err.Error()}
	}
	cfg, err := t.Cfg.cfg()
	if err != nil {
		return CrashResult{EngineError: err.Error()}
	}
	res := CrashResult{Outcomes: map[string]int{}}
	env, sv, err := qReplayLast(cfg, t.Path)
	if err != nil {
		return CrashResult{EngineError: err.Error()}
	}
	if len(sv) > 0 || env.Dead || len(env.Viol) > 0 {
		return CrashResult{EngineError: fmt.Sprintf("history is not replayable cleanly (%v %v)", sv, env.Viol)}
	}
	base, ops := env.Disk.Log()
	ps := cfg.File.PageSize
	// txid of the header as of the start of the log
	active := 0
	t0 := binary.LittleEndian.Uint64(base[pagedrv.OffTxid:])
	t1 := binary.LittleEndian.Uint64(base[ps+pagedrv.OffTxid:])
	if int64(t1-t0) > 0 {
		active = 1
	}
	baseTxid := []uint64{t0, t1}[active]
	seenImg := map[[32]byte]bool{}
	simdisk.Walk(base, ops, ps, func(cp *simdisk.CrashPoint) bool {
		if cp.K < env.LastOpLog {
			return true
		}
		if t.Coarse && t.Only == nil {
			keep := cp.K >= len(ops)-8 || cp.K%61 == 0
			if cp.K > 0 && (ops[cp.K-1].Kind == simdisk.OpSync || ops[cp.K-1].Kind == simdisk.OpMarker) {
				keep = true
			}
			if !keep {
				return true
			}
		}
		// committed: last header write followed by a completed sync; in flight: header writes issued since
		committed := baseTxid
		var inflight []uint64
		for _, op := range ops[:cp.K] {
			if tx, ok := headerTxidOf(op, ps); ok {
				inflight = append(inflight, tx)
			}
			if op.Kind == simdisk.OpSync && len(inflight) > 0 {
				committed = inflight[len(inflight)-1]
				inflight = nil
			}
		}
		allowed := map[uint64][2]int{}
		if st, ok := env.TxStates[committed]; ok {
			allowed[committed] = st
		} else {
			res.EngineError = fmt.Sprintf("no queue state recorded for committed txid %d (known: %v)", committed, env.TxStates)
			return false
		}
		for _, tx := range inflight {
			if st, ok := env.TxStates[tx]; ok {
				allowed[tx] = st
			}
		}
		p := len(cp.Pending)
		if p > res.MaxPending {
			res.MaxPending = p
		}
		if p > 63 {
			p = 63
		}
		ms, capped := masks(p, t.MaxBits)
		if t.Coarse && p > 2 {
			full := uint64(1)<<uint(p) - 1
			ms, capped = []uint64{0, full, uint64(1)<<uint(p/2) - 1}, false
		}
		if capped {
			res.Capped++
		}
		res.Boundaries++
		for _, m := range ms {
			type variant struct{ unit, tear int }
			variants := []variant{{-1, -1}}
			for i, u := range cp.Pending[:p] {
				if u.Header && m&(1<<uint(i)) != 0 {
					for _, tear := range []int{1, 8, 31, 32, 33, 39, 40, 47, 48, 56, 79, 80, 83} {
						variants = append(variants, variant{i, tear})
					}
				}
			}
			for _, v := range variants {
				rec := ImageRecipe{K: cp.K, Mask: m, Unit: v.unit, Tear: v.tear}
				if t.Only != nil && *t.Only != rec {
					continue
				}
				img := simdisk.BuildImage(cp.Durable, cp.Pending[:p], m, v.unit, v.tear)
				res.Images++
				h := sha256.Sum256(img)
				if seenImg[h] {
					continue
				}
				seenImg[h] = true
				res.Distinct++
				if m != 0 && bits.OnesCount64(m) != p || v.tear >= 0 {
					res.Nontrivial++
				}
				viol, outcome := checkRecoveredQueue(cfg, img, allowed, env.Events)
				res.Outcomes[outcome]++
				for _, x := range viol {
					if len(res.Viol) < 20 {
						x.Msg = fmt.Sprintf("crash at I/O boundary %d (last operation starts at %d of %d), pending=%d persisted-mask=%b tear=%d/%d: %s", cp.K, env.LastOpLog, len(ops), p, m, v.unit, v.tear, x.Msg)
						res.Viol = append(res.Viol, CrashViolation{Violation: x, Recipe: rec})
					}
				}
				if res.Sample == nil && p >= 2 && m != 0 {
					res.Sample = map[string]interface{}{"history": queuedrv.PathString(t.Path), "boundary": cp.K, "pending_units": p, "persisted_mask": fmt.Sprintf("%b", m), "recovered": outcome}
				}
			}
		}
		return true
	})
	return res
}

// checkRecoveredQueue opens file and queue on a crash image.
func checkRecoveredQueue(cfg queuedrv.Cfg, img []byte, allowed map[uint64][2]int, events [][]byte) (viol []pagedrv.Violation, outcome string) {
	var env *queuedrv.Env
	sv := xstate.Run(func() {
		d := simdisk.FromImage("qcrash", cfg.File.PageSize, img)
		env = queuedrv.Adopt(cfg, d)
		var err error
		if pn := pagedrv.Try(func() { err = env.Open() }); pn != "" {
			env.Viol = append(env.Viol, pagedrv.Violation{Class: "qcrash/open-panic", Msg: "opening the crash image panicked: " + firstLine(pn)})
			outcome = "open-panic"
			return
		}
		if err != nil {
			env.Viol = append(env.Viol, pagedrv.Violation{Class: "qcrash/open-failed", Msg: fmt.Sprintf("opening file and queue on the crash image failed: %v", err)})
			outcome = "open-failed"
			return
		}
		s := env.F.VerifSnapshot()
		t := s.Txid[s.MetaActive]
		st, ok := allowed[t]
		if !ok {
			var al []uint64
			for k := range allowed {
				al = append(al, k)
			}
			sort.Slice(al, func(i, j int) bool { return al[i] < al[j] })
			env.Viol = append(env.Viol, pagedrv.Violation{Class: "qcrash/wrong-transaction", Msg: fmt.Sprintf("recovered header txid %d, allowed %v", t, al)})
			outcome = "wrong-txid"
			return
		}
		acked, flushed := st[0], st[1]
		outcome = fmt.Sprintf("acked=%d flushed=%d", acked, flushed)
		if flushed > len(events) {
			flushed = len(events)
		}
		env.Events = append([][]byte(nil), events[:flushed]...)
		env.FlushLo, env.FlushHi, env.BaseFlushed = flushed, flushed, flushed
		env.Acked, env.BaseAcked, env.ReadPos = acked, acked, acked
		env.CheckCounters("recovery")
		env.Apply(Q{K: queuedrv.QReadAll})
		if !env.Dead && env.ReadPos != flushed {
			env.Viol = append(env.Viol, pagedrv.Violation{Class: "qcrash/lost-events", Msg: fmt.Sprintf("after recovery the reader delivered events up to #%d, flushed and un-ACKed are #%d..#%d", env.ReadPos, acked, flushed)})
		}
		// the queue still works
		for _, op := range []Q{{K: queuedrv.QWrite, A: 1200, B: queuedrv.ChunkFirst}, {K: queuedrv.QFlush}, {K: queuedrv.QReadAll}, {K: queuedrv.QAck}, {K: queuedrv.QReopen}} {
			if !env.Dead && env.Enabled(op) {
				env.Apply(op)
			}
		}
	})
	viol = append(env.Viol, sv...)
	for i := range viol {
		if len(viol[i].Class) < 7 || viol[i].Class[:7] != "qcrash/" {
			viol[i].Class = "qcrash/" + viol[i].Class
		}
	}
	return viol, outcome
}

func replayQCrash(raw json.RawMessage) []string {
	var hdr struct {
		Kind string `json:"kind"`
	}
	json.Unmarshal(raw, &hdr)
	if hdr.Kind == "qfault" {
		var d struct {
			Task QFaultTask `json:"task"`
		}
		if err := json.Unmarshal(raw, &d); err != nil {
			return []string{"violation: bad replay document"}
		}
		fmt.Printf("queue %s history: %s\n  plan: %+v\n", d.Task.Cfg, queuedrv.PathString(d.Task.Path), d.Task.Only)
		js, _ := json.Marshal(d.Task)
		r := handleQFault(js).(FaultResult)
		var out []string
		if r.EngineError != "" {
			out = append(out, "violation: engine error: "+r.EngineError)
		}
		for _, v := range r.Viol {
			out = append(out, fmt.Sprintf("violation: class=%s %s", v.Class, v.Msg))
		}
		return out
	}
	var d struct {
		Task QCrashTask `json:"task"`
	}
	if err := json.Unmarshal(raw, &d); err != nil || d.Task.Cfg.File == "" {
		return replayQueue(raw)
	}
	fmt.Printf("queue %s history: %s\n  image: %+v\n", d.Task.Cfg, queuedrv.PathString(d.Task.Path), d.Task.Only)
	js, _ := json.Marshal(d.Task)
	r := handleQCrash(js).(CrashResult)
	var out []string
	if r.EngineError != "" {
		out = append(out, "violation: engine error: "+r.EngineError)
	}
	fmt.Printf("  images: %d outcomes: %v\n", r.Images, r.Outcomes)
	for _, v := range r.Viol {
		out = append(out, fmt.Sprintf("violation: class=%s %s", v.Class, v.Msg))
	}
	return out
}

func runC06(ctx *core.Ctx, pool *par.Pool) {
	quick := ctx.Quick()
	cfgs := []QCfgSpec{{File: "C", Buffer: 5}, {File: "A", Buffer: 5}}
	depth, maxBits := 5, 10
	ctx.SetBudget(115 * time.Second)
	if !quick {
		depth, maxBits = 7, 12
		cfgs = append(cfgs, QCfgSpec{File: "E", Buffer: 6})
		ctx.SetBudget(15 * time.Minute)
	}
	var total xstate.Stats
	images, distinct, nontrivial, boundaries, tested, capped := 0, 0, 0, 0, 0, 0
	outcomes := map[string]int{}
	for _, c := range cfgs {
		c := c
		qc, _ := c.cfg()
		var cands [][]Q
		share := ctx.FairShare(len(cfgs), 0.8)
		endRun := ctx.Phase(share)
		endBFS := ctx.Phase(share * 3 / 10)
		st := qBFS(ctx, pool, c, queueAlphabet(qc.File.PageSize, true), depth, false, func(string) bool { return false }, func(from *QNode, s *QSucc, isNew bool) {
			switch s.Op.K {
			case queuedrv.QWrite, queuedrv.QFlush, queuedrv.QAck, queuedrv.QReopen:
				if !s.Dead {
					cands = append(cands, append(from.Path(), s.Op))
				}
			}
		})
		endBFS()
		total.States += st.States
		total.Transitions += st.Transitions
		// I/O shapes of the candidates
		sort.SliceStable(cands, func(i, j int) bool { return len(cands[i]) < len(cands[j]) })
		const batch = 50
		var sigTasks [][]byte
		var ranges [][2]int
		for i := 0; i < len(cands); i += batch {
			j := i + batch
			if j > len(cands) {
				j = len(cands)
			}
			b, _ := json.Marshal(QSigTask{Type: "qsig", Cfg: c, Paths: cands[i:j]})
			sigTasks = append(sigTasks, b)
			ranges = append(ranges, [2]int{i, j})
		}
		sigs := make([]string, len(cands))
		pool.Run(sigTasks, time.Time{}, 10*time.Minute, func(i int, out []byte, terr *par.TaskError) {
			if terr != nil {
				ctx.EngineError("qsig: %s", terr.Msg)
				return
			}
			var r QSigResult
			if err := json.Unmarshal(out, &r); err != nil || r.EngineError != "" {
				ctx.EngineError("qsig: %v %s", err, r.EngineError)
				return
			}
			copy(sigs[ranges[i][0]:ranges[i][1]], r.Sigs)
		}, nil)
		seen := map[string]bool{}
		var tasks []QCrashTask
		for i, sg := range sigs {
			if sg == "" || seen[sg] {
				continue
			}
			seen[sg] = true
			tasks = append(tasks, QCrashTask{Type: "qcrash", Cfg: c, Path: cands[i], MaxBits: maxBits})
		}
		ctx.Set("io_shapes_"+c.String(), len(tasks))
		if c.File == "C" {
			// one flush with more pages than the background writer takes in one batch (1024):
			// a 1100-page write buffer and one event that fills it
			hc := QCfgSpec{File: "C", Buffer: 1200}
			huge := []Q{{K: queuedrv.QWrite, A: 1100 * 1000}, {K: queuedrv.QFlush}}
			tasks = append([]QCrashTask{{Type: "qcrash", Cfg: hc, Path: huge, Coarse: true}}, tasks...)
			ctx.Set("huge_flush_histories", 1)
		}
		raw := make([][]byte, len(tasks))
		for i := range tasks {
			raw[i], _ = json.Marshal(tasks[i])
		}
		skipped := 0
		pool.Run(raw, ctx.Deadline, 15*time.Minute, func(i int, out []byte, terr *par.TaskError) {
			t := tasks[i]
			if terr != nil {
				ctx.EngineError("qcrash [%s]: %s %s", queuedrv.PathString(t.Path), terr.Msg, terr.Stderr)
				return
			}
			var r CrashResult
			if err := json.Unmarshal(out, &r); err != nil || r.EngineError != "" {
				ctx.EngineError("qcrash [%s]: %v %s", queuedrv.PathString(t.Path), err, r.EngineError)
				return
			}
			tested++
			images += r.Images
			distinct += r.Distinct
			nontrivial += r.Nontrivial
			boundaries += r.Boundaries
			capped += r.Capped
			for k, v := range r.Outcomes {
				outcomes[k] += v
			}
			if r.Sample != nil {
				ctx.AddSample(r.Sample)
			}
			for _, v := range r.Viol {
				tt := t
				rec := v.Recipe
				tt.Only = &rec
				ctx.Violate(v.Class, fmt.Sprintf("queue %s history [%s]: %s", t.Cfg, queuedrv.PathString(t.Path), v.Msg), map[string]interface{}{"kind": "qcrash", "task": tt})
			}
		}, func(int) { skipped++ })
		if skipped > 0 {
			ctx.Cap("queue %s: deadline reached, %d of %d I/O shapes not crash-tested", c, skipped, len(tasks))
		}
		endRun()
	}
	// transient I/O failures during flush/ACK/close, then retry: nothing accepted may be lost or duplicated
	fp, fe := runQFaultPass(ctx, pool, []QCfgSpec{{File: "C", Buffer: 5}, {File: "A", Buffer: 5}})
	ctx.Set("fault_plans", fp)
	ctx.Set("fault_plans_effective", fe)
	if capped > 0 {
		ctx.Cap("%d boundaries had more than %d pending units: subsets of size <=2, their complements and all log prefixes only", capped, maxBits)
	}
	ctx.Set("states", total.States)
	ctx.Set("transitions", total.Transitions)
	ctx.Set("transitions_crash_tested", tested)
	ctx.Set("io_boundaries", boundaries)
	ctx.Set("evaluations", images)
	ctx.Set("distinct_images", distinct)
	ctx.Set("distinct_nontrivial", nontrivial)
	ctx.Set("distinct_recovery_outcomes", len(outcomes))
	ctx.Set("rule", "crash image of a queue history = contents as of the last completed sync before an I/O boundary of its last operation (event write with implicit flush, Flush, ACK, close) + a subset of the later page writes/truncates, header writes also torn at 13 offsets; distinct = distinct image bytes per history; non-trivial = proper non-empty subset persisted or torn header. Clean close/reopen points are covered by the Reopen operation of the C05/C17 search")
}

// ---- fault pass: transient I/O failures during flush / ACK, then retry ----

// QFaultTask enumerates fault plans over the I/O window of the last operation
// of Path; afterwards the failures stop, the producer retries and everything
// accepted must still be delivered exactly once, in order.
type QFaultTask struct {
	Type string       `json:"type"`
	Cfg  QCfgSpec     `json:"cfg"`
	Path []Q          `json:"path"`
	Only *FaultRecipe `json:"only,omitempty"`
}

func init() { TaskHandlers["qfault"] = handleQFault }

func runQFault(cfg queuedrv.Cfg, path []Q, rec *FaultRecipe) (viol []pagedrv.Violation, outcome string, calls []simdisk.CallKind, window [2]int, faults int) {
	var env *queuedrv.Env
	sv := xstate.Run(func() {
		var err error
		env, err = queuedrv.New(cfg)
		if err != nil {
			viol = append(viol, pagedrv.Violation{Class: "engine", Msg: err.Error()})
			return
		}
		env.TolerateFaults = true
		for i, op := range path {
			if env.Dead || !env.Enabled(op) {
				continue
			}
			if i == len(path)-1 {
				window[0] = env.Disk.CallCount()
				if rec != nil && rec.Index >= 0 {
					env.Disk.SetPlan(&simdisk.Plan{Index: rec.Index, Kind: rec.Kind, Burst: rec.Burst})
				}
			}
			env.Apply(op)
		}
		window[1] = env.Disk.CallCount()
		calls = append([]simdisk.CallKind(nil), env.Disk.CallLog...)
		faults = env.Disk.Faults
		env.Disk.SetPlan(nil)
		if env.Dead {
			return
		}
		// the failures stopped: retry, go on producing, consume everything
		steps := []Q{{K: queuedrv.QFinish}, {K: queuedrv.QFlush}, {K: queuedrv.QWrite, A: 700, B: queuedrv.ChunkFirst}, {K: queuedrv.QFlush},
			{K: queuedrv.QWrite, A: 1500}, {K: queuedrv.QFlush}, {K: queuedrv.QReadAll}, {K: queuedrv.QAck}, {K: queuedrv.QWrite, A: 300}, {K: queuedrv.QFlush},
			{K: queuedrv.QReadAll}, {K: queuedrv.QAck}, {K: queuedrv.QReopen}, {K: queuedrv.QReadAll}}
		f0 := env.Full
		for _, op := range steps {
			if env.Dead {
				break
			}
			if env.Enabled(op) {
				env.Apply(op)
			}
		}
		if !env.Dead && env.Full == f0 && env.ReadPos != len(env.Events) {
			env.Viol = append(env.Viol, pagedrv.Violation{Class: "qfault/lost-events", Msg: fmt.Sprintf("after the failures stopped %d events were accepted and flushed, the reader delivered events up to #%d", len(env.Events), env.ReadPos)})
		}
		outcome = fmt.Sprintf("faulted-ops=%d delivered=%d", env.Faulted, env.ReadPos)
	})
	if env != nil {
		viol = append(viol, env.Viol...)
	}
	for _, v := range sv {
		viol = append(viol, v)
	}
	for i := range viol {
		if !strings.HasPrefix(viol[i].Class, "qfault/") {
			viol[i].Class = "qfault/" + viol[i].Class
		}
	}
	return
}

func handleQFault(raw []byte) interface{} {
	var t QFaultTask
	if err := json.Unmarshal(raw, &t); err != nil {
		return FaultResult{EngineError: err.Error()}
	}
	cfg, err := t.Cfg.cfg()
	if err != nil {
		return FaultResult{EngineError: err.Error()}
	}
	res := FaultResult{Outcomes: map[string]int{}}
	seen := map[string]bool{}
	viol, _, calls, window, _ := runQFault(cfg, t.Path, &FaultRecipe{Index: -1})
	if len(viol) > 0 {
		for _, v := range viol {
			v.Class = "fault-free-run/" + v.Class
			res.Viol = append(res.Viol, FaultViolation{Violation: v, Recipe: FaultRecipe{Index: -1}})
		}
		return res
	}
	res.Calls = window[1] - window[0]
	for idx := window[0]; idx < window[1] && idx < len(calls); idx++ {
		for _, kind := range kindsFor(calls[idx]) {
			for _, burst := range []int{1, 2} {
				rec := FaultRecipe{Index: idx, Kind: kind, Burst: burst}
				if t.Only != nil && *t.Only != rec {
					continue
				}
				res.Plans++
				viol, outcome, _, _, faults := runQFault(cfg, t.Path, &rec)
				if faults > 0 {
					res.Effective++
				}
				res.Outcomes[outcome]++
				for _, v := range viol {
					if seen[v.Class] {
						continue
					}
					seen[v.Class] = true
					v.Msg = fmt.Sprintf("%s of I/O call #%d (%s) for %d call(s) during the last operation: %s", kind, idx, calls[idx], burst, v.Msg)
					res.Viol = append(res.Viol, FaultViolation{Violation: v, Recipe: rec})
				}
				if res.Sample == nil && faults > 0 {
					res.Sample = map[string]interface{}{"history": queuedrv.PathString(t.Path), "failing_call": fmt.Sprintf("#%d %s", idx, calls[idx]), "kind": kind.String(), "burst": burst, "observed": outcome}
				}
			}
		}
	}
	return res
}

// queue histories whose last operation is fault-tested
func qFaultHistories() [][]Q {
	W := func(n int) Q { return Q{K: queuedrv.QWrite, A: n} }
	F, RA, A := Q{K: queuedrv.QFlush}, Q{K: queuedrv.QReadAll}, Q{K: queuedrv.QAck}
	pre := []Q{W(700), W(700), W(700), W(700), F, RA, A} // leaves freed pages on the free list
	cat := func(xs ...[]Q) []Q {
		var out []Q
		for _, x := range xs {
			out = append(out, x...)
		}
		return out
	}
	return [][]Q{
		{W(700), F},
		{W(700), W(1500), W(3000), F},
		cat(pre, []Q{W(700), W(700), W(700), W(700), F}),
		cat(pre, []Q{W(2500), W(2500), W(2500)}), // implicit flush inside Write
		cat(pre, []Q{W(700), W(700), F, RA, A}),  // failing ACK
		{W(5200), W(10), F, RA, {K: queuedrv.QAck, A: 1}},
	}
}

func runQFaultPass(ctx *core.Ctx, pool *par.Pool, cfgs []QCfgSpec) (plans, effective int) {
	var tasks []QFaultTask
	for _, c := range cfgs {
		for _, h := range qFaultHistories() {
			tasks = append(tasks, QFaultTask{Type: "qfault", Cfg: c, Path: h})
		}
	}
	raw := make([][]byte, len(tasks))
	for i := range tasks {
		raw[i], _ = json.Marshal(tasks[i])
	}
	skipped := 0
	pool.Run(raw, ctx.Deadline, 15*time.Minute, func(i int, out []byte, terr *par.TaskError) {
		t := tasks[i]
		if terr != nil {
			ctx.EngineError("qfault [%s]: %s %s", queuedrv.PathString(t.Path), terr.Msg, terr.Stderr)
			return
		}
		var r FaultResult
		if err := json.Unmarshal(out, &r); err != nil || r.EngineError != "" {
			ctx.EngineError("qfault [%s]: %v %s", queuedrv.PathString(t.Path), err, r.EngineError)
			return
		}
		plans += r.Plans
		effective += r.Effective
		if r.Sample != nil {
			ctx.AddSample(r.Sample)
		}
		for _, v := range r.Viol {
			tt := t
			rec := v.Recipe
			tt.Only = &rec
			ctx.Violate(v.Class, fmt.Sprintf("queue %s history [%s]: %s", t.Cfg, queuedrv.PathString(t.Path), v.Msg), map[string]interface{}{"kind": "qfault", "task": tt})
		}
	}, func(int) { skipped++ })
	if skipped > 0 {
		ctx.Cap("deadline reached: %d queue fault histories not run", skipped)
	}
	return
}
