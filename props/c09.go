package props

import (
	"encoding/json"
	"fmt"
	"os"
	"path/filepath"
	"strconv"
	"strings"
	"time"

	txfile "github.com/elastic/go-txfile"

	"verif/engine/core"
	"verif/engine/explore"
	"verif/engine/pagedrv"
	"verif/engine/par"
	"verif/engine/sched"
	"verif/engine/simdisk"
)

// C09: transaction locking is safe and live.

func init() {
	TaskHandlers["explore"] = explore.Handle
	explore.Scenarios["locks"] = mkLockScenario
	register(&Check{ID: "C09", Level: "model_checking", Replay: replayExplore, Run: runC09})
}

// LockParams describes one reader/writer/closer scenario.
type LockParams struct {
	Cfg      string   `json:"cfg"`
	Pre      string   `json:"pre"`     // plain | grow | shrink | unbound
	Writers  []string `json:"writers"` // ending per writer: commit | rollback | close | commitfail
	Readers  int      `json:"readers"`
	Closer   bool     `json:"closer"`
	RaceSame bool     `json:"race_same,omitempty"` // race-detector pass at the full preemption bound
	HoldForR bool     `json:"hold_for_readers"`    // writers keep their transaction open until all readers have begun
}

func (p LockParams) String() string {
	return fmt.Sprintf("%s/%s/W%v/R%d/closer=%v/hold=%v", p.Cfg, p.Pre, p.Writers, p.Readers, p.Closer, p.HoldForR)
}

// shared harness state; accessed under the cooperative scheduler only, and
// invisible to the race detector on purpose (it is not the program under test)
type lockShared struct {
	activeW, begunW, begunR, done int
	viol                          []pagedrv.Violation
	events                        []byte
}

//go:norace
func (s *lockShared) ev(c byte, i int) { s.events = append(s.events, c, byte('0'+i), ' ') }

//go:norace
func (s *lockShared) add(class, format string, args ...interface{}) {
	s.viol = append(s.viol, pagedrv.Violation{Class: class, Msg: fmt.Sprintf(format, args...)})
}

//go:norace
func (s *lockShared) enterW() {
	s.activeW++
	s.begunW++
	if s.activeW > 1 {
		s.add("locks/two-writers", "%d write transactions are active at the same time", s.activeW)
	}
}

//go:norace
func (s *lockShared) leaveW() { s.activeW-- }

//go:norace
func (s *lockShared) enterR() { s.begunR++ }

//go:norace
func (s *lockShared) readersBegun() int { return s.begunR }

//go:norace
func (s *lockShared) begun() int { return s.begunR + s.begunW }

func mkLockScenario(raw json.RawMessage) (explore.Body, error) {
	var p LockParams
	if err := json.Unmarshal(raw, &p); err != nil {
		return nil, err
	}
	cfg, ok := pagedrv.CfgByName(p.Cfg)
	if !ok {
		return nil, fmt.Errorf("unknown cfg %s", p.Cfg)
	}
	return func() []pagedrv.Violation {
		sched.Quiet(true)
		env, err := pagedrv.New(cfg)
		if err != nil {
			return []pagedrv.Violation{{Class: "engine", Msg: err.Error()}}
		}
		// a committed page, then the open-time maintenance variant
		env.Apply(O{K: pagedrv.OBegin})
		env.Apply(O{K: pagedrv.OAlloc, A: 2})
		env.Apply(O{K: pagedrv.OWriteAll})
		env.Apply(O{K: pagedrv.OSetRoot, A: 0})
		env.Apply(O{K: pagedrv.OCommit})
		switch p.Pre {
		case "grow":
			env.Apply(O{K: pagedrv.OReopenWith, A: 96})
		case "shrink":
			env.Apply(O{K: pagedrv.OReopenWith, A: 128})
			env.Apply(O{K: pagedrv.OReopenWith, A: 64})
		case "unbound":
			env.Apply(O{K: pagedrv.OReopenWith, A: 0})
		case "reopen":
			env.Apply(O{K: pagedrv.OReopen})
		}
		if len(env.Viol) > 0 || env.Dead {
			return env.Viol
		}
		f := env.F
		sh := &lockShared{}
		sched.LetOthersRun()
		sched.Quiet(false)
		var ids []int
		for wi, ending := range p.Writers {
			wi, ending := wi, ending
			ids = append(ids, sched.Spawn(fmt.Sprintf("W%d", wi), func() {
				tx, err := f.Begin()
				if err != nil {
					sh.add("locks/begin-error", "Begin failed: %v", err)
					return
				}
				sh.enterW()
				sh.ev('W', wi)
				if pg, err := tx.Alloc(); err == nil {
					pg.SetBytes(pagedrv.PageBytes(cfg.PageSize, uint64(pg.ID()), pagedrv.Val{1, 1}))
				}
				if p.HoldForR {
					for sh.readersBegun() < p.Readers {
						sched.YieldSpin("writer holds its transaction until all readers have begun")
					}
				} else {
					sched.Step("writer holds tx")
				}
				sh.leaveW()
				sh.ev('e', wi)
				switch ending {
				case "commit":
					if err := tx.Commit(); err != nil {
						sh.add("locks/commit-error", "Commit failed: %v", err)
					}
				case "rollback":
					if err := tx.Rollback(); err != nil {
						sh.add("locks/rollback-error", "Rollback failed: %v", err)
					}
				case "close":
					if err := tx.Close(); err != nil {
						sh.add("locks/close-error", "Tx.Close failed: %v", err)
					}
				case "commitfail":
					env.Disk.PlanNext(simdisk.FaultError, 2)
					err := tx.Commit()
					env.Disk.SetPlan(nil)
					if err == nil {
						sh.add("locks/commit-ok-despite-failure", "Commit returned nil although its first I/O calls failed")
					}
				}
			}))
		}
		for ri := 0; ri < p.Readers; ri++ {
			ri := ri
			ids = append(ids, sched.Spawn(fmt.Sprintf("R%d", ri), func() {
				tx, err := f.BeginReadonly()
				if err != nil {
					sh.add("locks/begin-error", "BeginReadonly failed: %v", err)
					return
				}
				sh.enterR()
				sh.ev('R', ri)
				if pg, err := tx.RootPage(); err == nil && pg != nil {
					pg.Bytes()
				}
				sched.Step("reader holds tx")
				sh.ev('c', ri)
				if err := tx.Close(); err != nil {
					sh.add("locks/close-error", "read Tx.Close failed: %v", err)
				}
			}))
		}
		closed := false
		if p.Closer {
			n := len(p.Writers) + p.Readers
			ids = append(ids, sched.Spawn("Closer", func() {
				for sh.begun() < n {
					sched.YieldSpin("closer waits until every transaction has begun")
				}
				if err := f.Close(); err != nil {
					sh.add("locks/file-close-error", "File.Close failed: %v", err)
				}
			}))
			closed = true
		}
		for _, id := range ids {
			sched.Join(id)
		}
		if !closed {
			if ls := f.VerifLockState(); ls.Shared != 0 || ls.Pending || ls.ReservedHeld {
				sh.add("locks/not-idle", "no transaction is open but the lock state is %+v", ls)
			}
			// Begin, BeginReadonly and Close must complete (a hang is a deadlock of this execution)
			if tx, err := f.Begin(); err != nil {
				sh.add("locks/begin-error", "Begin at the end failed: %v", err)
			} else {
				tx.Close()
			}
			if tx, err := f.BeginReadonly(); err != nil {
				sh.add("locks/begin-error", "BeginReadonly at the end failed: %v", err)
			} else {
				tx.Close()
			}
			if err := f.Close(); err != nil {
				sh.add("locks/file-close-error", "File.Close failed: %v", err)
			}
		}
		if env.H != nil && env.Disk.Locked() {
			sh.add("locks/path-lock", "the file lock is still held after File.Close")
		}
		explore.SetOutcome(string(sh.events))
		return sh.viol
	}, nil
}

var _ = txfile.NoError

// ExploreDoc is the replay document of a schedule violation.
type ExploreDoc struct {
	Kind     string          `json:"kind"`
	Scenario string          `json:"scenario"`
	Params   json.RawMessage `json:"params"`
	Choices  []int           `json:"choices"`
	Bounds   explore.Bounds  `json:"bounds"`
}

func replayExplore(raw json.RawMessage) []string {
	var d ExploreDoc
	if err := json.Unmarshal(raw, &d); err != nil || d.Scenario == "" {
		return []string{"violation: bad replay document"}
	}
	fmt.Printf("scenario %s %s\n  schedule (%d choices): %v\n", d.Scenario, d.Params, len(d.Choices), d.Choices)
	t := explore.Task{Type: "explore", Scenario: d.Scenario, Params: d.Params, Prefix: d.Choices, Bounds: d.Bounds, Once: true}
	js, _ := json.Marshal(t)
	r := explore.Handle(js).(explore.Result)
	var out []string
	if r.EngineError != "" {
		out = append(out, "violation: engine error: "+r.EngineError)
	}
	for _, s := range r.Sample {
		fmt.Println("   ", s)
	}
	for _, v := range r.Viol {
		out = append(out, fmt.Sprintf("violation: class=%s %s", v.Class, v.Msg))
	}
	return out
}

// exploreAll runs a list of scenarios and reports through ctx.
func exploreAll(ctx *core.Ctx, pool *par.Pool, scenario string, params []interface{}, names []string, bounds func(i int) explore.Bounds, taskType string) (execs, points int, outcomes map[string]int) {
	outcomes = map[string]int{}
	for i, p := range params {
		b := bounds(i)
		if ctx.Expired() {
			ctx.Cap("deadline reached: %d of %d scenarios not explored", len(params)-i, len(params))
			break
		}
		praw, _ := json.Marshal(p)
		name := names[i]
		st := explore.Explore(ctx, pool, scenario, p, b, taskType, func(v explore.ExecViolation) {
			ctx.Violate(v.Class, fmt.Sprintf("scenario %s, schedule of %d choices: %s", name, len(v.Choices), v.Msg),
				ExploreDoc{Kind: "schedule", Scenario: scenario, Params: praw, Choices: v.Choices, Bounds: b})
		})
		execs += st.Execs
		points += st.Points
		for k, v := range st.Outcomes {
			outcomes[name+":"+k] += v
		}
		if st.Truncated {
			ctx.Cap("scenario %s: deadline reached inside the exploration (%d executions done)", name, st.Execs)
		}
		if st.Nondet > 0 {
			ctx.EngineError("scenario %s: %d candidate violations did not reproduce", name, st.Nondet)
		}
		if i < 6 {
			ctx.AddSample(map[string]interface{}{"scenario": name, "preemption_bound": b.Preempt, "executions": st.Execs, "max_choice_points": st.MaxPoints, "outcomes": st.Outcomes})
		}
		ctx.Log("scenario %s: bound %d: %d executions, max %d choice points, %d distinct outcomes", name, b.Preempt, st.Execs, st.MaxPoints, len(st.Outcomes))
	}
	return
}

// racePool returns a pool running the -race worker with report logging.
func racePool(ctx *core.Ctx) *par.Pool {
	dir := os.Getenv("VERIF_BUILD_DIR")
	bin := filepath.Join(dir, "worker-race")
	if _, err := os.Stat(bin); dir == "" || err != nil {
		return nil
	}
	logs := filepath.Join(dir, "racelogs")
	os.RemoveAll(logs)
	os.MkdirAll(logs, 0o755)
	p := par.NewPool(ctx.Procs, "child")
	p.Bin = bin
	p.Env = []string{"GORACE=log_path=" + filepath.Join(logs, "r") + " halt_on_error=0 history_size=2"}
	return p
}

// plainPool returns a pool running the uninstrumented worker (conformance).
func plainPool(ctx *core.Ctx) *par.Pool {
	dir := os.Getenv("VERIF_BUILD_DIR")
	bin := filepath.Join(dir, "worker-plain")
	if _, err := os.Stat(bin); dir == "" || err != nil {
		return nil
	}
	p := par.NewPool(ctx.Procs, "child")
	p.Bin = bin
	return p
}

func lockScenarios(quick bool) (ps []interface{}, names []string) {
	add := func(p LockParams) {
		ps = append(ps, p)
		names = append(names, p.String())
	}
	endings := []string{"commit", "rollback", "close", "commitfail"}
	for _, e := range endings {
		add(LockParams{Cfg: "A", Pre: "plain", Writers: []string{e}, Readers: 1})
		add(LockParams{Cfg: "A", Pre: "plain", Writers: []string{e}, Readers: 2, HoldForR: true})
	}
	for _, pre := range []string{"grow", "shrink", "unbound", "reopen"} {
		add(LockParams{Cfg: "A", Pre: pre, Writers: []string{"commit"}, Readers: 1})
	}
	add(LockParams{Cfg: "A", Pre: "plain", Writers: []string{"commit", "commit"}})
	// a reader that is parked while the first commit runs and woken while the second one starts:
	// the race pass runs at the same bound here (the reader must not get in during the second commit)
	add(LockParams{Cfg: "A", Pre: "plain", Writers: []string{"commit", "commit"}, Readers: 1, RaceSame: true})
	add(LockParams{Cfg: "A", Pre: "plain", Writers: []string{"commit", "rollback"}, Readers: 1})
	add(LockParams{Cfg: "A", Pre: "plain", Writers: []string{"commitfail", "commit"}, Readers: 1})
	add(LockParams{Cfg: "A", Pre: "plain", Writers: []string{"commit"}, Readers: 1, Closer: true})
	add(LockParams{Cfg: "A", Pre: "plain", Writers: []string{"rollback"}, Readers: 2, Closer: true})
	add(LockParams{Cfg: "C", Pre: "plain", Writers: []string{"commit"}, Readers: 2})
	if !quick {
		for _, e1 := range endings {
			for _, e2 := range endings {
				add(LockParams{Cfg: "A", Pre: "plain", Writers: []string{e1, e2}, Readers: 2})
				add(LockParams{Cfg: "A", Pre: "plain", Writers: []string{e1, e2}, Readers: 1, Closer: true})
			}
			add(LockParams{Cfg: "A", Pre: "grow", Writers: []string{e1}, Readers: 2, Closer: true})
			add(LockParams{Cfg: "C", Pre: "plain", Writers: []string{e1}, Readers: 2, HoldForR: true})
		}
	}
	return
}

func runC09(ctx *core.Ctx, pool *par.Pool) {
	small, large := 2, 1 // preemption bounds for scenarios with <= 2 and with more user threads
	ctx.SetBudget(100 * time.Second)
	if !ctx.Quick() {
		small, large = 3, 2
		ctx.SetBudget(15 * time.Minute)
	}
	ps, names := lockScenarios(ctx.Quick())
	if only := os.Getenv("VERIF_C09_ONLY"); only != "" { // debugging aid: one scenario, optional bound override
		var ps2 []interface{}
		var names2 []string
		for i, n := range names {
			if strings.Contains(n, only) {
				ps2, names2 = append(ps2, ps[i]), append(names2, n)
			}
		}
		ps, names = ps2, names2
		if b, err := strconv.Atoi(os.Getenv("VERIF_C09_BOUND")); err == nil {
			small, large = b, b
		}
	}
	bounds := func(i int) explore.Bounds {
		p := ps[i].(LockParams)
		n := len(p.Writers) + p.Readers
		if p.Closer {
			n++
		}
		if n <= 2 {
			return explore.Bounds{Preempt: small}
		}
		return explore.Bounds{Preempt: large}
	}
	execs, points, outcomes := exploreAll(ctx, pool, "locks", ps, names, bounds, "explore")
	// happens-before race detection inside the enumerated schedules (-race build, one bound lower)
	if rp := racePool(ctx); rp != nil {
		rb := func(i int) explore.Bounds {
			b := bounds(i)
			if b.Preempt > 0 && !ps[i].(LockParams).RaceSame {
				b.Preempt--
			}
			return b
		}
		re, _, _ := exploreAll(ctx, rp, "locks", ps, names, rb, "explore")
		ctx.Set("race_detector_schedules", re)
	} else {
		ctx.Cap("race-detector build not available: the happens-before race pass was skipped")
	}
	ctx.Set("scenarios", len(ps))
	ctx.Set("preemption_bound", fmt.Sprintf("%d for scenarios with at most 2 user threads, %d for larger ones (plus the library's writer thread in all)", small, large))
	ctx.Set("states", points)
	ctx.Set("transitions", execs)
	ctx.Set("schedules_explored", execs)
	ctx.Set("distinct_outcomes", len(outcomes))
	ctx.Set("traces_validated_against_impl", execs)
	ctx.Set("explanation", "stateless exploration: 'transitions' counts complete executions (schedules) of the real lock/commit code under the controlled scheduler, 'states' counts the choice points visited in them; every schedule with at most the stated number of preemptions was executed")
}
