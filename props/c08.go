package props

import (
	"encoding/json"
	"fmt"
	"sort"
	"strings"
	"time"

	txfile "github.com/elastic/go-txfile"

	"verif/engine/core"
	"verif/engine/pagedrv"
	"verif/engine/par"
	"verif/engine/sched"
	"verif/engine/simdisk"
	"verif/engine/xstate"
)

// C08: I/O failures are contained. For one representative history per I/O
// shape: every I/O call index in the window of the last operation x every
// failure kind applicable to that call x burst length 1..3, under two writer
// timings (lazy: the background writer runs when the committer waits; eager:
// the writer drains its queue after every operation).

func init() {
	TaskHandlers["fault"] = handleFault
	register(&Check{ID: "C08", Level: "fault_enumeration", Replay: replayFault, Run: runC08})
}

// FaultTask: enumerate fault plans over the last operation of Path.
type FaultTask struct {
	Type   string       `json:"type"`
	Cfg    string       `json:"cfg"`
	Path   []O          `json:"path"`
	Bursts []int        `json:"bursts"`
	Only   *FaultRecipe `json:"only,omitempty"`
}

// FaultRecipe identifies one fault plan of a history.
type FaultRecipe struct {
	Eager   bool              `json:"eager"`
	Index   int               `json:"index"`
	Kind    simdisk.FaultKind `json:"kind"`
	Burst   int               `json:"burst"`
	Variant string            `json:"variant"` // "reopen" or "continue"
}

// FaultViolation is a violation plus its plan.
type FaultViolation struct {
	pagedrv.Violation
	Recipe FaultRecipe `json:"recipe"`
}

// FaultResult is the answer to a FaultTask.
type FaultResult struct {
	EngineError string           `json:"engine_error,omitempty"`
	Plans       int              `json:"plans"`
	Effective   int              `json:"effective"` // plans under which at least one call failed
	Calls       int              `json:"calls"`
	Outcomes    map[string]int   `json:"outcomes"`
	Viol        []FaultViolation `json:"viol,omitempty"`
	Sample      interface{}      `json:"sample,omitempty"`
}

// postCommitClass: a failing truncate/munmap/size/mmap in tryCommitChanges
// after the new header has been synced. Commit returns an error although the
// transaction is durable and the in-memory state has been switched; the
// rollback that follows corrupts the allocator, a failed remap leaves no
// mapping at all.
const postCommitClass = "fault/post-commit-remap-failure"

func kindsFor(ck simdisk.CallKind) []simdisk.FaultKind {
	switch ck {
	case simdisk.CallWrite:
		return []simdisk.FaultKind{simdisk.FaultError, simdisk.FaultShort}
	default:
		return []simdisk.FaultKind{simdisk.FaultError}
	}
}

// faultRun is one execution of a history with a fault plan.
type faultRun struct {
	env      *pagedrv.Env
	eager    bool
	outcome  []string
	faultsAt int // Disk.Faults before the current operation
	txBase   int // Disk.Faults when the running transaction began
	// a Commit failed in the remap/truncate step after its header had been synced
	postCommit bool
}

func (r *faultRun) drain() {
	if r.eager {
		sched.LetOthersRun()
	}
}

func (r *faultRun) note(s string) { r.outcome = append(r.outcome, s) }

// commitPhase inspects the log of a failed commit: was the new header written,
// and did the first failure happen only after the header had been synced
// (i.e. in the remap/truncate step that follows the on-disk commit)?
func commitPhase(d *simdisk.Disk, from int) (headerWritten, failedAfterHeaderSync bool) {
	_, ops := d.Log()
	synced := false
	firstFault := true
	for _, op := range ops[from:] {
		switch op.Kind {
		case simdisk.OpWrite:
			if op.Off/int64(d.PageSize) < 2 && len(op.Data) == pagedrv.HeaderSize {
				headerWritten = true
			}
		case simdisk.OpSync:
			if headerWritten {
				synced = true
			}
		case simdisk.OpFault:
			if firstFault {
				firstFault = false
				failedAfterHeaderSync = synced
			}
		}
	}
	return
}

// commit is the fault-aware commit.
func (r *faultRun) commit() {
	e := r.env
	next := e.CommitModel()
	tight := e.Cfg.MaxPages > 0 && int(e.Avail()) < len(e.T.Writes)+8
	f0 := e.Disk.Faults
	l0 := e.Disk.LogLen()
	var err error
	if pn := pagedrv.Try(func() { err = e.Tx.Commit() }); pn != "" {
		e.Viol = append(e.Viol, pagedrv.Violation{Class: "fault/panic/Commit", Msg: "Commit panicked: " + firstLine(pn)})
		e.Dead = true
		return
	}
	faulted := e.Disk.Faults > f0 || e.Disk.Faults > r.txBase
	e.Tx, e.T = nil, nil
	if err == nil {
		if e.Disk.Faults > f0 {
			// A failure after the new header has been synced hits the maintenance step that follows the on-disk
			// commit (cutting the file, growing the mapped region): the transaction is committed, the step is
			// retried later. Any earlier failure must make Commit fail.
			if _, post := commitPhase(e.Disk, l0); !post {
				e.Viol = append(e.Viol, pagedrv.Violation{Class: "fault/commit-succeeded-despite-failure", Msg: "Commit returned nil although an I/O call failed while it ran"})
			} else {
				r.note("post-commit-failure")
			}
		}
		e.M = next
		e.Maybe = nil
		s := e.F.VerifSnapshot()
		e.LastTxid = s.Txid[s.MetaActive]
		e.ByTxid[e.LastTxid] = next
		r.note("commit=ok")
		return
	}
	r.note("commit=err")
	if !faulted && !pagedrv.IsOOM(err) && !tight {
		e.Viol = append(e.Viol, pagedrv.Violation{Class: "fault/commit-failed-without-failure", Msg: fmt.Sprintf("Commit failed although no I/O call failed: %v", err)})
	}
	hdr, post := commitPhase(e.Disk, l0)
	if hdr {
		// the header was handed to the file: a reopen may show this commit (completely)
		e.Maybe = &next
	}
	if post {
		r.postCommit = true
	}
}

func firstLine(s string) string {
	if i := strings.IndexByte(s, '\n'); i > 0 {
		return s[:i]
	}
	return s
}

// reopen is the fault-aware close+open. Returns false if the file is closed
// afterwards.
func (r *faultRun) reopen(o txfile.Options, newMax int) bool {
	e := r.env
	f0 := e.Disk.Faults
	var err error
	if pn := pagedrv.Try(func() { err = e.F.Close() }); pn != "" {
		e.Viol = append(e.Viol, pagedrv.Violation{Class: "fault/panic/Close", Msg: "File.Close panicked: " + firstLine(pn)})
		e.Dead = true
		return false
	}
	if err != nil && e.Disk.Faults == f0 {
		e.Viol = append(e.Viol, pagedrv.Violation{Class: "fault/close-error", Msg: fmt.Sprintf("File.Close failed without an injected failure: %v", err)})
	}
	e.F = nil
	if e.Disk.Locked() {
		e.Viol = append(e.Viol, pagedrv.Violation{Class: "fault/lock-leaked", Msg: "File.Close left the file locked"})
		e.Disk.ForceUnlock()
	}
	return r.open(o, newMax)
}

func (r *faultRun) open(o txfile.Options, newMax int) bool {
	e := r.env
	f0 := e.Disk.Faults
	var err error
	if pn := pagedrv.Try(func() { err = e.OpenWith(o) }); pn != "" {
		e.Viol = append(e.Viol, pagedrv.Violation{Class: "fault/panic/Open", Msg: "Open panicked: " + firstLine(pn)})
		e.Dead = true
		return false
	}
	if err != nil {
		r.note("open=err")
		if e.Disk.Faults == f0 {
			e.Viol = append(e.Viol, pagedrv.Violation{Class: "fault/open-failed-without-failure", Msg: fmt.Sprintf("Open failed although no I/O call failed: %s", pagedrv.ErrChain(err))})
		}
		if e.Disk.Locked() {
			e.Viol = append(e.Viol, pagedrv.Violation{Class: "fault/lock-leaked", Msg: "a failed Open left the file locked"})
			e.Disk.ForceUnlock()
		}
		return false
	}
	r.note("open=ok")
	if e.Maybe == nil {
		e.SyncTxid()
	}
	{
		// Which limit is in force? The header tells: a resize during which an
		// I/O call failed may or may not have been applied (also when it is
		// this later open that finds the result).
		s := e.F.VerifSnapshot()
		e.Cfg.MaxPages = int(s.MaxPages)
		e.Opts.MaxSize = uint64(int(s.MaxPages) * e.Cfg.PageSize)
	}
	return true
}

// apply executes one operation of the history under a possibly active plan.
func (r *faultRun) apply(op O) {
	e := r.env
	if e.Dead {
		return
	}
	if !e.Enabled(op) {
		return
	}
	r.faultsAt = e.Disk.Faults
	if op.K == pagedrv.OBegin {
		r.txBase = e.Disk.Faults
	}
	switch op.K {
	case pagedrv.OCommit:
		r.commit()
		if !e.Dead {
			r.checkInProcess("after the commit")
		}
	case pagedrv.OReopen:
		r.reopen(e.Opts, -1)
	case pagedrv.OReopenWith:
		o := e.Opts
		o.Flags |= txfile.FlagUpdMaxSize
		o.MaxSize = uint64(op.A * e.Cfg.PageSize)
		o.Prealloc = op.B == 1
		r.reopen(o, op.A)
	default:
		nv := len(e.Viol)
		rc := e.ReadCheck
		e.ReadCheck = false
		e.Apply(op)
		e.ReadCheck = rc
		if e.Disk.Faults > r.faultsAt {
			// errors are the expected reaction to a failure; anything else stays
			kept := e.Viol[:nv]
			for _, v := range e.Viol[nv:] {
				if !strings.HasPrefix(v.Class, "error/") {
					kept = append(kept, v)
				}
			}
			e.Viol = kept
		}
		if (op.K == pagedrv.ORollback || op.K == pagedrv.OCloseTx) && !e.Dead {
			r.checkInProcess("after the rollback")
		}
	}
	r.drain()
}

// checkInProcess: transactions in the same process see exactly the last
// successfully committed state.
func (r *faultRun) checkInProcess(when string) {
	e := r.env
	if e.F == nil || e.Dead {
		return
	}
	f0, nv := e.Disk.Faults, len(e.Viol)
	e.VerifyAgainst(e.M, when, "fault/in-process")
	if e.Disk.Faults > f0 {
		// an I/O call failed while the read transaction was started (e.g. the file had to be mapped again):
		// an error is the expected answer, there is nothing to compare
		e.Viol = e.Viol[:nv]
		e.Dead = false
		r.note("begin=err")
	}
}

func runFault(cfg pagedrv.Cfg, path []O, rec *FaultRecipe) (viol []pagedrv.Violation, outcome string, calls []simdisk.CallKind, window [2]int, faults int) {
	var r faultRun
	sv := xstate.Run(func() {
		env, err := pagedrv.New(cfg)
		if err != nil {
			viol = append(viol, pagedrv.Violation{Class: "engine", Msg: err.Error()})
			return
		}
		env.Disk.StartLog()
		env.Disk.CallLogOn = true
		r = faultRun{env: env}
		if rec != nil {
			r.eager = rec.Eager
		}
		start := len(path) - 1
		for i := len(path) - 1; i >= 0; i-- {
			if path[i].K == pagedrv.OBegin {
				start = i
				break
			}
			if path[i].K == pagedrv.OCommit || path[i].K == pagedrv.ORollback || path[i].K == pagedrv.OCloseTx {
				if i < len(path)-1 {
					break
				}
			}
		}
		for i, op := range path {
			if i == start {
				window[0] = env.Disk.Calls
				if rec != nil && rec.Index >= 0 {
					env.Disk.SetPlan(&simdisk.Plan{Index: rec.Index, Kind: rec.Kind, Burst: rec.Burst})
				}
			}
			r.apply(op)
			if env.Dead {
				break
			}
		}
		// a transaction left open is committed (the failure may surface here)
		if !env.Dead && env.T != nil {
			r.faultsAt = env.Disk.Faults
			r.commit()
			r.drain()
			if !env.Dead {
				r.checkInProcess("after the commit")
			}
		}
		window[1] = env.Disk.Calls
		calls = append([]simdisk.CallKind(nil), env.Disk.CallLog...)
		faults = env.Disk.Faults
		if rec == nil || env.Dead {
			return
		}
		// the failures stop; from here on every commit leaves decodable, consistent metadata on disk
		env.Disk.SetPlan(nil)
		env.DiskCheck = true
		if env.F == nil {
			if !r.open(env.Opts, -1) {
				if !env.Dead {
					env.Viol = append(env.Viol, pagedrv.Violation{Class: "fault/unusable-after-failures", Msg: "the file cannot be opened after the failures stopped"})
				}
				return
			}
			r.checkReopened("reopened after a failed open")
		}
		if env.Dead {
			return
		}
		r.checkInProcess("after the failures stopped")
		if !r.postCommit {
			env.CheckMemVsDisk("after the failures stopped")
		}
		switch rec.Variant {
		case "reopen":
			if r.reopen(env.Opts, -1) {
				r.checkReopened("after clean close and reopen")
			} else if !env.Dead {
				env.Viol = append(env.Viol, pagedrv.Violation{Class: "fault/unusable-after-failures", Msg: "clean close and reopen failed after the failures stopped"})
			}
		default:
			// new transactions commit successfully on the same File
			env.Apply(O{K: pagedrv.OBegin})
			if env.Dead {
				return
			}
			r.txBase = env.Disk.Faults
			n0 := len(env.T.New)
			env.Apply(O{K: pagedrv.OAlloc, A: 1})
			if len(env.T.New) > n0 {
				for _, id := range newIDs(env) {
					env.WritePage(id, pagedrv.WFull)
				}
			}
			if len(env.Visible()) > 1 {
				env.Apply(O{K: pagedrv.OWrite, A: 0, B: pagedrv.WFull})
			}
			r.faultsAt = env.Disk.Faults
			tight := env.Cfg.MaxPages > 0 && int(env.Avail()) < len(env.T.Writes)+8
			r.commit()
			if env.Dead {
				return
			}
			if r.outcome[len(r.outcome)-1] != "commit=ok" && !tight {
				env.Viol = append(env.Viol, pagedrv.Violation{Class: "fault/next-commit-fails", Msg: "after the failures stopped, a new transaction on the same File does not commit"})
			}
			r.checkInProcess("after the follow-up commit")
			followUpOK := r.outcome[len(r.outcome)-1] == "commit=ok"
			if r.reopen(env.Opts, -1) {
				if followUpOK {
					// the successful commit replaced the header a failed commit may have left behind
					env.Maybe = nil
				}
				r.checkReopened("after the follow-up commit and reopen")
			}
		}
		if env.F != nil {
			env.CloseFile()
		}
	})
	if r.env != nil {
		viol = append(viol, r.env.Viol...)
	}
	for _, v := range sv {
		v.Class = "fault/" + v.Class
		viol = append(viol, v)
	}
	if r.postCommit {
		// one call site, many symptoms: everything that follows is attributed to it
		for i := range viol {
			viol[i].Msg = "[" + viol[i].Class + "] " + viol[i].Msg
			viol[i].Class = postCommitClass
		}
	}
	return viol, strings.Join(r.outcome, ","), calls, window, faults
}

// checkReopened: after reopening, the file shows the last successfully
// committed state or, atomically, the state of a commit attempt whose only
// failure was its final sync.
func (r *faultRun) checkReopened(when string) {
	e := r.env
	if e.F == nil || e.Dead {
		return
	}
	if e.Maybe != nil {
		s := e.F.VerifSnapshot()
		if s.Txid[s.MetaActive] == e.LastTxid+1 {
			e.M = *e.Maybe
			e.LastTxid++
			e.ByTxid[e.LastTxid] = e.M
			r.note("reopen=later-commit")
		}
		e.Maybe = nil
	}
	e.VerifyAgainst(e.M, when, "fault/reopened")
}

func handleFault(raw []byte) interface{} {
	var t FaultTask
	if err := json.Unmarshal(raw, &t); err != nil {
		return FaultResult{EngineError: err.Error()}
	}
	cfg, ok := pagedrv.CfgByName(t.Cfg)
	if !ok {
		return FaultResult{EngineError: "unknown cfg " + t.Cfg}
	}
	res := FaultResult{Outcomes: map[string]int{}}
	seen := map[string]bool{}
	for _, eager := range []bool{false, true} {
		if t.Only != nil && t.Only.Eager != eager {
			continue
		}
		// fault-free run: call log and window
		base := &FaultRecipe{Eager: eager, Index: -1}
		viol, _, calls, window, _ := runFault(cfg, t.Path, base)
		if len(viol) > 0 {
			for _, v := range viol {
				v.Class = "fault-free-run/" + v.Class
				if !seen[v.Class] {
					seen[v.Class] = true
					res.Viol = append(res.Viol, FaultViolation{Violation: v, Recipe: *base})
				}
			}
			continue
		}
		if !eager {
			res.Calls = window[1] - window[0]
		}
		for idx := window[0]; idx < window[1] && idx < len(calls); idx++ {
			for _, kind := range kindsFor(calls[idx]) {
				for _, burst := range t.Bursts {
					for _, variant := range []string{"reopen", "continue"} {
						rec := FaultRecipe{Eager: eager, Index: idx, Kind: kind, Burst: burst, Variant: variant}
						if t.Only != nil && *t.Only != rec {
							continue
						}
						res.Plans++
						viol, outcome, _, _, faults := runFault(cfg, t.Path, &rec)
						if faults > 0 {
							res.Effective++
						}
						res.Outcomes[outcome]++
						for _, v := range viol {
							if v.Class != postCommitClass {
								v.Class = v.Class + "/" + calls[idx].String() + "-" + kind.String()
							}
							if seen[v.Class] {
								continue
							}
							seen[v.Class] = true
							v.Msg = fmt.Sprintf("%s of I/O call #%d (%s) for %d call(s), writer %s, then %s: %s", kind, idx, calls[idx], burst,
								map[bool]string{false: "lazy", true: "eager"}[eager], variant, v.Msg)
							res.Viol = append(res.Viol, FaultViolation{Violation: v, Recipe: rec})
						}
						if res.Sample == nil && faults > 0 && burst == 2 {
							res.Sample = map[string]interface{}{"history": pagedrv.PathString(t.Path), "failing_call": fmt.Sprintf("#%d %s", idx, calls[idx]),
								"kind": kind.String(), "burst": burst, "eager_writer": eager, "then": variant, "observed": outcome}
						}
					}
				}
			}
		}
	}
	return res
}

func replayFault(raw json.RawMessage) []string {
	var d struct {
		Task FaultTask `json:"task"`
	}
	if err := json.Unmarshal(raw, &d); err != nil || d.Task.Cfg == "" {
		return xstate.ReplayDoc(raw)
	}
	if d.Task.Only != nil {
		fmt.Printf("cfg %s history: %s\n  plan: %+v\n", d.Task.Cfg, pagedrv.PathString(d.Task.Path), *d.Task.Only)
	} else {
		fmt.Printf("cfg %s history: %s\n  all plans\n", d.Task.Cfg, pagedrv.PathString(d.Task.Path))
	}
	js, _ := json.Marshal(d.Task)
	r := handleFault(js).(FaultResult)
	var out []string
	if r.EngineError != "" {
		out = append(out, "violation: engine error: "+r.EngineError)
	}
	fmt.Printf("  plans: %d outcomes: %v\n", r.Plans, r.Outcomes)
	for _, v := range r.Viol {
		out = append(out, fmt.Sprintf("violation: class=%s %s", v.Class, v.Msg))
	}
	return out
}

func faultAlphabet(quick bool) []O {
	a := crashAlphabet(quick)
	a = append(a, O{K: pagedrv.OReopenWith, A: 96}, O{K: pagedrv.OReopenWith, A: 0})
	return a
}

// txBodyKinds renders the set of operation kinds since the last Begin.
func txBodyKinds(n *xstate.Node) string {
	set := map[string]bool{}
	for x := n; x != nil && x.Parent != nil; x = x.Parent {
		if x.Op.K == pagedrv.OBegin {
			set[x.Op.String()] = true
			break
		}
		k := x.Op.String()
		if i := strings.IndexByte(k, '('); i > 0 {
			k = k[:i]
		}
		set[k] = true
	}
	var ks []string
	for k := range set {
		ks = append(ks, k)
	}
	sort.Strings(ks)
	return strings.Join(ks, ",")
}

func runC08(ctx *core.Ctx, pool *par.Pool) {
	cfgs := []pagedrv.Cfg{pagedrv.CfgA, pagedrv.CfgC}
	depth, seedDepth := 6, 5
	bursts := []int{1, 2, 3}
	ctx.SetBudget(120 * time.Second)
	if !ctx.Quick() {
		cfgs = []pagedrv.Cfg{pagedrv.CfgA, pagedrv.CfgB, pagedrv.CfgC, pagedrv.CfgF}
		depth, seedDepth = 8, 7
		ctx.SetBudget(15 * time.Minute)
	}
	var total xstate.Stats
	plans, effective, histories, calls := 0, 0, 0, 0
	outcomes := map[string]int{}
	runs := plan(cfgs, []seed{seedTwo, seedWAL, seedTail, seedFull}, depth, seedDepth)
	// failures in transactions that use the overflow area of a full file (the file end moves in both directions)
	ovSeed := seed{"full+overflow-bodies", seedFull.Ops}
	ovDepth := 4
	if !ctx.Quick() {
		ovDepth = 6
	}
	runs = append(runs, bfsRun{pagedrv.CfgA, ovSeed, ovDepth})
	// the same on the file with a pre-sized meta area, one page already overwritten (an overwrite mapping exists)
	ovSeedB := seed{"full+overflow-bodies", append(append([]O{}, seedFull.Ops...), O{K: pagedrv.OBegin}, O{K: pagedrv.OWrite, A: -1}, O{K: pagedrv.OCommit})}
	runs = append(runs, bfsRun{pagedrv.CfgB, ovSeedB, ovDepth - 1})
	// failures while an open lowers the maximum size and returns free pages at the end of the file (second open-time transaction)
	shrinkSeed := seed{"grown-free-tail", []O{{K: pagedrv.OReopenWith, A: 128}, {K: pagedrv.OBegin}, {K: pagedrv.OAlloc, A: 100}, {K: pagedrv.OWriteAll}, {K: pagedrv.OCommit},
		{K: pagedrv.OBegin}, {K: pagedrv.OFreeRun, A: 40, B: 60}, {K: pagedrv.OCommit}}}
	shrinkAlphabet := []O{{K: pagedrv.OReopenWith, A: 64}, {K: pagedrv.OReopenWith, A: 96}, {K: pagedrv.OReopenWith, A: 64, B: 1}, {K: pagedrv.OReopen}, {K: pagedrv.OBegin},
		{K: pagedrv.OAlloc, A: 1}, {K: pagedrv.OWrite, A: 0, B: pagedrv.WFull}, {K: pagedrv.OFree, A: -1}, {K: pagedrv.OCommit}}
	shrinkDepth := 3
	if !ctx.Quick() {
		shrinkDepth = 5
	}
	runs = append(runs, bfsRun{pagedrv.CfgB, shrinkSeed, shrinkDepth})
	for _, run := range runs {
		cfg := run.Cfg
		alphabet := faultAlphabet(ctx.Quick())
		if run.Seed.Name == ovSeed.Name {
			alphabet = overflowBodyAlphabet()
		}
		if run.Seed.Name == shrinkSeed.Name {
			alphabet = shrinkAlphabet
		}
		sigs := map[string]bool{}
		var tasks []FaultTask
		share := ctx.FairShare(len(runs), 1)
		endRun := ctx.Phase(share)
		endBFS := ctx.Phase(share * 3 / 10)
		st := xstate.BFS(ctx, pool, xstate.Spec{Cfg: cfg, Seed: run.Seed.Ops, Alphabet: alphabet, MaxDepth: run.Depth, Flags: []string{"iolog"},
			OnTransition: func(from *xstate.Node, s *xstate.Succ, isNew bool, to *xstate.Node) {
				sig := s.IOSig
				switch s.Op.K {
				case pagedrv.ORollback, pagedrv.OCloseTx:
					// size/truncate calls, and whatever the writer still holds of this transaction:
					// one history per set of operation kinds in the aborted transaction
					sig = fmt.Sprintf("abort|%s|%v|%s", run.Seed.Name, s.Op, txBodyKinds(from))
				case pagedrv.OReopen, pagedrv.OReopenWith:
					if sig == "" {
						if from.Depth > 4 {
							return
						}
						sig = fmt.Sprintf("open|%s|%v|%d", run.Seed.Name, s.Op, from.Depth)
					}
				default:
					if sig == "" {
						return
					}
				}
				if s.IOSig != "" && sig == s.IOSig {
					sig = run.Seed.Name + "|" + sig
				}
				if s.Dead || sigs[sig] {
					return
				}
				sigs[sig] = true
				tasks = append(tasks, FaultTask{Type: "fault", Cfg: cfg.Name, Path: append(from.Path(), s.Op), Bursts: bursts})
			}})
		endBFS()
		total.States += st.States
		total.Transitions += st.Transitions
		ctx.Set("depth_"+run.name(), st.Depth)
		ctx.Set("io_shapes_"+run.name(), len(sigs))
		sort.SliceStable(tasks, func(i, j int) bool { return len(tasks[i].Path) < len(tasks[j].Path) })
		raw := make([][]byte, len(tasks))
		for i := range tasks {
			raw[i], _ = json.Marshal(tasks[i])
		}
		skipped := 0
		pool.Run(raw, ctx.Deadline, 15*time.Minute, func(i int, out []byte, terr *par.TaskError) {
			t := tasks[i]
			if terr != nil {
				ctx.EngineError("fault task [%s]: %s %s", pagedrv.PathString(t.Path), terr.Msg, terr.Stderr)
				return
			}
			var r FaultResult
			if err := json.Unmarshal(out, &r); err != nil {
				ctx.EngineError("bad result: %v", err)
				return
			}
			if r.EngineError != "" {
				ctx.EngineError("fault task [%s]: %s", pagedrv.PathString(t.Path), r.EngineError)
				return
			}
			histories++
			plans += r.Plans
			effective += r.Effective
			calls += r.Calls
			for k, v := range r.Outcomes {
				outcomes[k] += v
			}
			if r.Sample != nil {
				ctx.AddSample(r.Sample)
			}
			for _, v := range r.Viol {
				tt := t
				rec := v.Recipe
				tt.Only = &rec
				ctx.Violate(v.Class, fmt.Sprintf("cfg %s history [%s]: %s", cfg.Name, pagedrv.PathString(t.Path), v.Msg),
					map[string]interface{}{"kind": "fault", "task": tt})
			}
		}, func(int) { skipped++ })
		if skipped > 0 {
			ctx.Cap("%s: deadline reached, %d of %d histories not fault-tested", run.name(), skipped, len(tasks))
		}
		endRun()
	}
	ctx.Set("states", total.States)
	ctx.Set("transitions", total.Transitions)
	ctx.Set("histories_fault_tested", histories)
	ctx.Set("io_calls_in_windows", calls)
	ctx.Set("evaluations", plans)
	ctx.Set("distinct_nontrivial", effective)
	ctx.Set("distinct_outcomes", len(outcomes))
	ctx.Set("rule", "fault plan = (history, writer timing lazy|eager, index of an I/O call in the window of the history's last operation, failure kind applicable to that call: error-before-effect / short-write-then-error, burst length 1..3, continuation: close+reopen | follow-up transaction+reopen); all plans of a history are distinct by construction; non-trivial = at least one I/O call actually failed under the plan")
}
