package props

import (
	"encoding/json"
	"fmt"
	"os"
	"path/filepath"
	"strings"
	"time"

	txfile "github.com/elastic/go-txfile"
	"github.com/elastic/go-txfile/txerr"

	"verif/engine/core"
	"verif/engine/pagedrv"
	"verif/engine/par"
)

// C18: the path lock is exclusive and always released. Checked on the real
// file system with the plain (uninstrumented) build and the real Open: all
// sequences of open / failing open / close operations up to a depth, against
// the reference model "who holds the lock".

func init() {
	TaskHandlers["lockseq"] = handleLockSeq
	register(&Check{ID: "C18", Level: "model_checking", Replay: replayLockSeq, Run: runC18})
}

const (
	lOpenA = iota
	lOpenB
	lCloseA
	lCloseB
	lOpenInvalid
	lOpenDamaged
	lOpenTruncated
	lOpenTooSmall
	lOpenDevFull
	lWaitOpen
	lCloseW
	lBeginReadA  // read transaction on handle A
	lEndReadA    //
	lAsyncCloseA // File.Close of A in a goroutine: blocks while the read transaction is open
	lOpenAWait   // OpenA with the wait flag while nobody holds the file: returns at once, the handle is as exclusive as any
	lNumOps
)

var lockOpNames = []string{"OpenA", "OpenB", "CloseA", "CloseB", "Open(invalid options)", "Open(both headers damaged)", "Open(file truncated inside header)",
	"Open(new file, max size below minimum)", "Open(path -> /dev/full)", "Open(wait flag) in goroutine", "CloseW",
	"BeginReadonly on A", "end read tx on A", "CloseA in goroutine", "OpenA(wait flag, file free)"}

func lockSeqString(seq []int) string {
	var s []string
	for _, o := range seq {
		s = append(s, lockOpNames[o])
	}
	return strings.Join(s, "; ")
}

// LockSeqTask executes every sequence extending Prefix up to Depth.
type LockSeqTask struct {
	Type   string `json:"type"`
	Prefix []int  `json:"prefix"`
	Depth  int    `json:"depth"`
	Exact  bool   `json:"exact"` // run Prefix only (replay)
	Dir    string `json:"dir"`
}

// LockSeqViolation carries its sequence.
type LockSeqViolation struct {
	pagedrv.Violation
	Seq []int `json:"seq"`
}

// LockSeqResult is the answer.
type LockSeqResult struct {
	EngineError string             `json:"engine_error,omitempty"`
	Sequences   int                `json:"sequences"`
	Ops         int                `json:"ops"`
	States      map[string]int     `json:"states"`
	Viol        []LockSeqViolation `json:"viol,omitempty"`
}

type lockWorld struct {
	dir, path     string
	readA         *txfile.Tx
	closingA      chan error // CloseA running in a goroutine
	a, b, w       *txfile.File
	waiting       chan waitResult
	waiterStarted bool
	waitFlag      bool // the next tryOpen uses FlagWaitLock
	created       bool
	viol          []pagedrv.Violation
}

type waitResult struct {
	f   *txfile.File
	err error
}

func validOpts() txfile.Options {
	return txfile.Options{MaxSize: 128 * 1024, PageSize: 1024}
}

func (w *lockWorld) held() bool { return w.a != nil || w.b != nil || w.w != nil }

func (w *lockWorld) state() string {
	return fmt.Sprintf("a=%v b=%v w=%v waiting=%v created=%v readA=%v closingA=%v", w.a != nil, w.b != nil, w.w != nil, w.waiting != nil, w.created, w.readA != nil, w.closingA != nil)
}

func (w *lockWorld) add(class, format string, args ...interface{}) {
	w.viol = append(w.viol, pagedrv.Violation{Class: class, Msg: fmt.Sprintf(format, args...)})
}

func (w *lockWorld) enabled(op int) bool {
	switch op {
	case lOpenA:
		return w.a == nil
	case lOpenAWait:
		return !w.held() && w.waiting == nil
	case lOpenB:
		return w.b == nil
	case lCloseA:
		return w.a != nil && w.readA == nil && w.closingA == nil
	case lBeginReadA:
		return w.a != nil && w.readA == nil && w.closingA == nil
	case lEndReadA:
		return w.readA != nil
	case lAsyncCloseA:
		return w.a != nil && w.readA != nil && w.closingA == nil
	case lCloseB:
		return w.b != nil
	case lCloseW:
		return w.w != nil
	case lOpenInvalid:
		return true
	case lOpenDamaged, lOpenTruncated:
		return !w.held() && w.waiting == nil && w.created
	case lOpenTooSmall, lOpenDevFull:
		return !w.held() && w.waiting == nil
	case lWaitOpen:
		return w.waiting == nil && w.w == nil && (w.a != nil) != (w.b != nil)
	}
	return false
}

func (w *lockWorld) open(o txfile.Options) (*txfile.File, error, string) {
	var f *txfile.File
	var err error
	pn := pagedrv.Try(func() { f, err = txfile.Open(w.path, 0o644, o) })
	return f, err, pn
}

// tryOpen implements OpenA/OpenB.
func (w *lockWorld) tryOpen(slot **txfile.File, name string) {
	holder := w.held()
	o := validOpts()
	if w.waitFlag {
		o.Flags |= txfile.FlagWaitLock
	}
	f, err, pn := w.open(o)
	if pn != "" {
		w.add("pathlock/panic", "%s panicked: %s", name, firstLine(pn))
		return
	}
	if holder {
		if err == nil {
			w.add("pathlock/double-open", "%s succeeded while the file is open through another handle", name)
			*slot = f
			return
		}
		if !txerr.Is(txfile.LockFailed, err) {
			w.add("pathlock/wrong-error", "%s on an open file failed with %v, expected a lock error", name, err)
		}
		return
	}
	if w.waiting != nil {
		// a blocked waiter may win the lock at any time once it is free: not judged here
		if err == nil {
			*slot = f
			w.created = true
		}
		return
	}
	if err != nil {
		cl := "pathlock/open-failed"
		if txerr.Is(txfile.LockFailed, err) {
			cl = "pathlock/lock-not-released"
		}
		w.add(cl, "%s failed although nobody holds the file: %v", name, err)
		return
	}
	*slot = f
	w.created = true
}

func (w *lockWorld) closeSlot(slot **txfile.File, name string) {
	var err error
	if pn := pagedrv.Try(func() { err = (*slot).Close() }); pn != "" {
		w.add("pathlock/panic", "%s panicked: %s", name, firstLine(pn))
	} else if err != nil {
		w.add("pathlock/close-error", "%s failed: %v", name, err)
	}
	*slot = nil
	w.collectWaiter(true)
}

// collectWaiter: a waiter must not have returned while a holder exists; once
// the lock is free it must return successfully.
func (w *lockWorld) collectWaiter(lockFree bool) {
	if w.waiting == nil {
		return
	}
	if w.held() {
		select {
		case r := <-w.waiting:
			w.waiting = nil
			if r.err == nil {
				w.add("pathlock/waiter-did-not-wait", "Open with the wait flag returned success while another handle holds the file")
				w.w = r.f
			} else {
				w.add("pathlock/waiter-failed", "Open with the wait flag failed instead of waiting: %v", r.err)
			}
		default:
		}
		return
	}
	select {
	case r := <-w.waiting:
		w.waiting = nil
		if r.err != nil {
			w.add("pathlock/waiter-failed", "Open with the wait flag failed after the holder closed: %v", r.err)
			return
		}
		w.w = r.f
	case <-time.After(60 * time.Second):
		w.add("pathlock/waiter-stuck", "Open with the wait flag did not return within 60s after the holder closed the file")
		w.waiting = nil
	}
}

// failingOpen runs an Open that must fail, with the file temporarily replaced
// by prepare(); afterwards the original file is restored and the path must be
// openable.
func (w *lockWorld) failingOpen(name string, o txfile.Options, prepare func() error) {
	backup := w.path + ".bak"
	hadFile := false
	if _, err := os.Lstat(w.path); err == nil {
		hadFile = true
		if err := os.Rename(w.path, backup); err != nil {
			w.add("engine", "%v", err)
			return
		}
	}
	restore := func() {
		os.Remove(w.path)
		if hadFile {
			os.Rename(backup, w.path)
		}
	}
	if err := prepare(); err != nil {
		restore()
		w.add("engine", "prepare %s: %v", name, err)
		return
	}
	f, err, pn := w.open(o)
	if pn != "" {
		w.add("pathlock/panic", "%s panicked: %s", name, firstLine(pn))
	} else if err == nil {
		// not what this operation is about (other checks own it), but the handle must be released
		f.Close()
	} else if txerr.Is(txfile.LockFailed, err) {
		w.add("pathlock/lock-not-released", "%s failed with a lock error although nobody holds the file: %v", name, err)
	}
	restore()
	// after any failed Open the path can be opened again immediately
	g, err, pn := w.open(validOpts())
	if pn != "" {
		w.add("pathlock/panic", "Open after %s panicked: %s", name, firstLine(pn))
		return
	}
	if err != nil {
		cl := "pathlock/open-failed-after-failed-open"
		if txerr.Is(txfile.LockFailed, err) {
			cl = "pathlock/lock-not-released"
		}
		w.add(cl, "after %s the path cannot be opened: %v", name, err)
		return
	}
	w.created = true
	if err := g.Close(); err != nil {
		w.add("pathlock/close-error", "Close failed: %v", err)
	}
}

func copyFile(src, dst string) error {
	b, err := os.ReadFile(src)
	if err != nil {
		return err
	}
	return os.WriteFile(dst, b, 0o644)
}

func (w *lockWorld) apply(op int) {
	backup := w.path + ".bak"
	switch op {
	case lOpenA:
		w.tryOpen(&w.a, "OpenA")
	case lOpenAWait:
		w.waitFlag = true
		w.tryOpen(&w.a, "OpenA(wait flag)")
		w.waitFlag = false
	case lOpenB:
		w.tryOpen(&w.b, "OpenB")
	case lCloseA:
		w.closeSlot(&w.a, "CloseA")
	case lCloseB:
		w.closeSlot(&w.b, "CloseB")
	case lCloseW:
		w.closeSlot(&w.w, "CloseW")
	case lBeginReadA:
		tx, err := w.a.BeginReadonly()
		if err != nil {
			w.add("pathlock/begin-error", "BeginReadonly failed: %v", err)
			return
		}
		w.readA = tx
	case lAsyncCloseA:
		ch := make(chan error, 1)
		f := w.a
		go func() { ch <- f.Close() }()
		w.closingA = ch
		time.Sleep(15 * time.Millisecond)
		select {
		case <-ch:
			w.add("pathlock/close-did-not-wait", "File.Close returned while a read transaction is still open")
			w.closingA, w.a, w.readA = nil, nil, nil
		default:
		}
	case lEndReadA:
		if err := w.readA.Close(); err != nil {
			w.add("pathlock/close-error", "read Tx.Close failed: %v", err)
		}
		w.readA = nil
		if w.closingA != nil {
			select {
			case err := <-w.closingA:
				if err != nil {
					w.add("pathlock/close-error", "File.Close failed: %v", err)
				}
			case <-time.After(60 * time.Second):
				w.add("pathlock/close-stuck", "File.Close did not return within 60s after the last transaction ended")
			}
			w.closingA, w.a = nil, nil
			w.collectWaiter(true)
		}
	case lOpenInvalid:
		holder := w.held()
		_, err, pn := w.open(txfile.Options{MaxSize: 128 * 1024, PageSize: 1000})
		if pn != "" {
			w.add("pathlock/panic", "Open(invalid options) panicked: %s", firstLine(pn))
		} else if err == nil {
			w.add("pathlock/invalid-options-accepted", "Open accepted a page size that is not a power of two")
		}
		if !holder && w.waiting == nil {
			f, err, _ := w.open(validOpts())
			if err != nil {
				w.add("pathlock/lock-not-released", "after Open(invalid options) the path cannot be opened: %v", err)
			} else {
				w.created = true
				f.Close()
			}
		}
	case lOpenDamaged:
		w.failingOpen(lockOpNames[op], validOpts(), func() error {
			if err := copyFile(backup, w.path); err != nil {
				return err
			}
			f, err := os.OpenFile(w.path, os.O_RDWR, 0)
			if err != nil {
				return err
			}
			defer f.Close()
			junk := []byte(strings.Repeat("\xde\xad", 42))
			f.WriteAt(junk, 0)
			f.WriteAt(junk, 1024)
			return nil
		})
	case lOpenTruncated:
		w.failingOpen(lockOpNames[op], validOpts(), func() error {
			if err := copyFile(backup, w.path); err != nil {
				return err
			}
			return os.Truncate(w.path, 10)
		})
	case lOpenTooSmall:
		w.failingOpen(lockOpNames[op], txfile.Options{MaxSize: 16 * 1024, PageSize: 1024}, func() error { return nil })
	case lOpenDevFull:
		w.failingOpen(lockOpNames[op], validOpts(), func() error { return os.Symlink("/dev/full", w.path) })
	case lWaitOpen:
		ch := make(chan waitResult, 1)
		w.waiting = ch
		path := w.path
		go func() {
			o := validOpts()
			o.Flags |= txfile.FlagWaitLock
			f, err := txfile.Open(path, 0o644, o)
			ch <- waitResult{f, err}
		}()
		time.Sleep(15 * time.Millisecond)
		w.collectWaiter(false)
	}
	if op != lWaitOpen {
		w.collectWaiter(false)
	}
}

func (w *lockWorld) cleanup() {
	if w.readA != nil {
		pagedrv.Try(func() { w.readA.Close() })
		w.readA = nil
	}
	if w.closingA != nil {
		select {
		case <-w.closingA:
		case <-time.After(60 * time.Second):
		}
		w.closingA, w.a = nil, nil
	}
	for _, s := range []**txfile.File{&w.a, &w.b, &w.w} {
		if *s != nil {
			pagedrv.Try(func() { (*s).Close() })
			*s = nil
		}
	}
	if w.waiting != nil {
		select {
		case r := <-w.waiting:
			if r.f != nil {
				r.f.Close()
			}
		case <-time.After(60 * time.Second):
		}
	}
	os.RemoveAll(w.dir)
}

func runLockSeq(base string, seq []int) (viol []pagedrv.Violation, states []string, nops int) {
	dir, err := os.MkdirTemp(base, "c18-")
	if err != nil {
		return []pagedrv.Violation{{Class: "engine", Msg: err.Error()}}, nil, 0
	}
	w := &lockWorld{dir: dir, path: filepath.Join(dir, "data.txf")}
	defer w.cleanup()
	for _, op := range seq {
		if !w.enabled(op) {
			return nil, states, nops // not a valid sequence
		}
		w.apply(op)
		nops++
		states = append(states, w.state())
		if len(w.viol) > 0 {
			break
		}
	}
	// finally: close everything; the path must be openable again
	if len(w.viol) == 0 {
		if w.readA != nil {
			w.apply(lEndReadA)
		}
		for len(w.viol) == 0 && (w.a != nil || w.b != nil || w.w != nil || w.waiting != nil) {
			switch {
			case w.a != nil:
				w.closeSlot(&w.a, "CloseA")
			case w.b != nil:
				w.closeSlot(&w.b, "CloseB")
			case w.w != nil:
				w.closeSlot(&w.w, "CloseW")
			default:
				w.collectWaiter(true)
			}
		}
		f, err, pn := w.open(validOpts())
		if pn != "" || err != nil {
			cl := "pathlock/open-failed"
			if err != nil && txerr.Is(txfile.LockFailed, err) {
				cl = "pathlock/lock-not-released"
			}
			w.add(cl, "after closing every handle the path cannot be opened: %v %s", err, pn)
		} else {
			f.Close()
		}
	}
	return w.viol, states, nops
}

func handleLockSeq(raw []byte) interface{} {
	var t LockSeqTask
	if err := json.Unmarshal(raw, &t); err != nil {
		return LockSeqResult{EngineError: err.Error()}
	}
	res := LockSeqResult{States: map[string]int{}}
	seen := map[string]bool{}
	var rec func(seq []int)
	rec = func(seq []int) {
		if len(seq) > 0 {
			viol, states, n := runLockSeq(t.Dir, seq)
			if n < len(seq) && len(viol) == 0 {
				return // invalid sequence: nothing below it either
			}
			res.Sequences++
			res.Ops += n
			for _, s := range states {
				res.States[s]++
			}
			for _, v := range viol {
				if !seen[v.Class] {
					seen[v.Class] = true
					res.Viol = append(res.Viol, LockSeqViolation{Violation: v, Seq: append([]int(nil), seq...)})
				}
			}
			if len(viol) > 0 {
				return
			}
		}
		if t.Exact || len(seq) >= t.Depth {
			return
		}
		for op := 0; op < lNumOps; op++ {
			rec(append(append([]int(nil), seq...), op))
		}
	}
	if t.Exact {
		viol, _, n := runLockSeq(t.Dir, t.Prefix)
		res.Sequences, res.Ops = 1, n
		for _, v := range viol {
			res.Viol = append(res.Viol, LockSeqViolation{Violation: v, Seq: t.Prefix})
		}
		return res
	}
	rec(t.Prefix)
	return res
}

func lockTmpBase() string {
	base := filepath.Join(core.Root, ".build", "c18tmp")
	os.MkdirAll(base, 0o755)
	return base
}

func replayLockSeq(raw json.RawMessage) []string {
	var d struct {
		Seq []int `json:"seq"`
	}
	if err := json.Unmarshal(raw, &d); err != nil {
		return []string{"violation: bad replay document"}
	}
	fmt.Printf("sequence: %s\n", lockSeqString(d.Seq))
	viol, states, _ := runLockSeq(lockTmpBase(), d.Seq)
	for _, s := range states {
		fmt.Println("  state:", s)
	}
	var out []string
	for _, v := range viol {
		out = append(out, fmt.Sprintf("violation: class=%s %s", v.Class, v.Msg))
	}
	return out
}

func runC18(ctx *core.Ctx, pool *par.Pool) {
	if core.IsInstrumented() {
		ctx.EngineError("C18 must run with the plain build (scripts/check.sh selects worker-plain)")
		return
	}
	depth := 5
	ctx.SetBudget(110 * time.Second)
	if !ctx.Quick() {
		depth = 6
		ctx.SetBudget(15 * time.Minute)
	}
	base := lockTmpBase()
	defer os.RemoveAll(base)
	var tasks []LockSeqTask
	tasks = append(tasks, LockSeqTask{Type: "lockseq", Prefix: nil, Depth: 1, Dir: base})
	for a := 0; a < lNumOps; a++ {
		tasks = append(tasks, LockSeqTask{Type: "lockseq", Prefix: []int{a}, Depth: 1, Exact: true, Dir: base})
		for b := 0; b < lNumOps; b++ {
			tasks = append(tasks, LockSeqTask{Type: "lockseq", Prefix: []int{a, b}, Depth: depth, Dir: base})
		}
	}
	raw := make([][]byte, len(tasks))
	for i := range tasks {
		raw[i], _ = json.Marshal(tasks[i])
	}
	seqs, ops := 0, 0
	states := map[string]int{}
	skipped := 0
	pool.Run(raw, ctx.Deadline, 20*time.Minute, func(i int, out []byte, terr *par.TaskError) {
		if terr != nil {
			ctx.EngineError("lockseq %v: %s %s", tasks[i].Prefix, terr.Msg, terr.Stderr)
			return
		}
		var r LockSeqResult
		if err := json.Unmarshal(out, &r); err != nil || r.EngineError != "" {
			ctx.EngineError("lockseq: %v %s", err, r.EngineError)
			return
		}
		seqs += r.Sequences
		ops += r.Ops
		for k, v := range r.States {
			states[k] += v
		}
		for _, v := range r.Viol {
			ctx.Violate(v.Class, fmt.Sprintf("sequence [%s]: %s", lockSeqString(v.Seq), v.Msg), map[string]interface{}{"kind": "lockseq", "seq": v.Seq})
		}
	}, func(int) { skipped++ })
	if skipped > 0 {
		ctx.Cap("deadline reached: %d of %d sequence subtrees not run", skipped, len(tasks))
	}
	ctx.AddSample(map[string]interface{}{"sequence": lockSeqString([]int{lOpenA, lWaitOpen, lOpenDamaged, lCloseA}), "note": "operations whose precondition does not hold end a sequence"})
	ctx.AddSample(map[string]interface{}{"sequence": lockSeqString([]int{lOpenDevFull, lOpenA, lOpenB, lCloseA})})
	ctx.Set("depth", depth)
	ctx.Set("states", len(states))
	ctx.Set("transitions", ops)
	ctx.Set("sequences", seqs)
	ctx.Set("traces_validated_against_impl", seqs)
	ctx.Set("explanation", "every sequence of at most `depth` operations over {open, second open, open with wait flag in a goroutine, failing opens (invalid options, both headers damaged, file truncated inside header 0, max size below the mmap minimum, path symlinked to /dev/full), close} executed with the real Open on the real file system against the model 'who holds the lock'; states = distinct model states, transitions = operations executed")
	ctx.Assumptions = append(ctx.Assumptions, "local file system with working flock(2); the waiting open is judged by safety only (must not return while the file is held) plus a 60 s liveness ceiling after the holder closed")
}
