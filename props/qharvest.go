package props

import (
	_ "embed"
	"encoding/json"
	"fmt"
	"math/rand"
	"os"
	"path/filepath"
	"sort"
	"time"

	"verif/engine/core"
	"verif/engine/par"
	"verif/engine/queuedrv"
	"verif/engine/xstate"
)

// Harvested queue seeds: see harvest.go. Produced by `check.sh XQHARV thorough`.

//go:embed qharvest.json
var qharvestJSON []byte

// QHarvestSeed is one entry of qharvest.json.
type QHarvestSeed struct {
	Cfg     QCfgSpec `json:"cfg"`
	Feature string   `json:"feature"`
	Path    []Q      `json:"path"`
}

func qharvestSeeds() []QHarvestSeed {
	var l []QHarvestSeed
	json.Unmarshal(qharvestJSON, &l)
	return l
}

func qfeature(e *queuedrv.Env) string {
	s := e.F.VerifSnapshot()
	b := func(n int) string {
		switch {
		case n <= 0:
			return "0"
		case n == 1:
			return "1"
		}
		return "2+"
	}
	avail := "unb"
	if s.MaxPages > 0 {
		free := int(s.DataAvail)
		switch {
		case free == 0:
			avail = "full"
		case free <= 3:
			avail = "tight"
		default:
			avail = "room"
		}
	}
	return fmt.Sprintf("pending=%s unread=%s buffered=%s midEvent=%v fullSeen=%v avail=%s dataFree=%s metaFree=%s wal=%s",
		b(e.FlushLo-e.Acked), b(e.FlushLo-e.ReadPos), b(len(e.Events)-e.FlushHi), len(e.Cur) > 0, e.Full > 0, avail,
		b(len(s.DataFree)), b(len(s.MetaFree)), b(len(s.WALMapping)))
}

type QHarvestTask struct {
	Type string   `json:"type"`
	Cfg  QCfgSpec `json:"cfg"`
	Seed int64    `json:"seed"`
	Len  int      `json:"len"`
}

type QHarvestResult struct {
	Found []QHarvestSeed `json:"found"`
}

func init() {
	TaskHandlers["qharvest"] = handleQHarvest
	register(&Check{ID: "XQHARV", Level: "model_checking", Replay: replayQueue, Run: runQHarvest})
}

func handleQHarvest(raw []byte) interface{} {
	var t QHarvestTask
	json.Unmarshal(raw, &t)
	cfg, err := t.Cfg.cfg()
	if err != nil {
		return QHarvestResult{}
	}
	rng := rand.New(rand.NewSource(t.Seed))
	alpha := queueAlphabet(cfg.File.PageSize, false)
	if cfg.File.MaxPages > 0 {
		alpha = append(alpha, fillAlphabet(t.Cfg, false)...)
	}
	var res QHarvestResult
	seen := map[string]bool{}
	xstate.Run(func() {
		env, err := queuedrv.New(cfg)
		if err != nil {
			return
		}
		var path []Q
		for i := 0; i < t.Len && !env.Dead && len(env.Viol) == 0; i++ {
			var en []Q
			for _, op := range alpha {
				if env.Enabled(op) {
					en = append(en, op)
				}
			}
			if len(en) == 0 {
				break
			}
			op := en[rng.Intn(len(en))]
			path = append(path, op)
			env.Apply(op)
			if env.Dead || len(env.Viol) > 0 {
				break
			}
			if !env.InTx && env.F != nil {
				f := qfeature(env)
				if !seen[f] {
					seen[f] = true
					res.Found = append(res.Found, QHarvestSeed{Cfg: t.Cfg, Feature: f, Path: append([]Q{}, path...)})
				}
			}
		}
	})
	return res
}

func runQHarvest(ctx *core.Ctx, pool *par.Pool) {
	ctx.SetBudget(20 * time.Minute)
	var tasks [][]byte
	for _, c := range []QCfgSpec{{File: "A", Buffer: 5}, {File: "C", Buffer: 5}, {File: "P17", Buffer: 5}, {File: "B", Buffer: 6}} {
		for s := int64(1); s <= 2500; s++ {
			raw, _ := json.Marshal(QHarvestTask{Type: "qharvest", Cfg: c, Seed: s, Len: 10 + int(s%40)})
			tasks = append(tasks, raw)
		}
	}
	best := map[string]QHarvestSeed{}
	pool.Run(tasks, ctx.Deadline, 5*time.Minute, func(i int, out []byte, terr *par.TaskError) {
		if terr != nil {
			return
		}
		var r QHarvestResult
		json.Unmarshal(out, &r)
		for _, h := range r.Found {
			k := h.Cfg.String() + "|" + h.Feature
			if old, ok := best[k]; !ok || len(h.Path) < len(old.Path) || len(h.Path) == len(old.Path) && queuedrv.PathString(h.Path) < queuedrv.PathString(old.Path) {
				best[k] = h
			}
		}
	}, nil)
	var list []QHarvestSeed
	for _, h := range best {
		if len(h.Path) >= 6 {
			list = append(list, h)
		}
	}
	sort.Slice(list, func(i, j int) bool {
		if list[i].Cfg.String() != list[j].Cfg.String() {
			return list[i].Cfg.String() < list[j].Cfg.String()
		}
		return list[i].Feature < list[j].Feature
	})
	js, _ := json.MarshalIndent(list, "", " ")
	root := os.Getenv("VERIF_ROOT")
	if root == "" {
		root = "/verif"
	}
	out := filepath.Join(root, "props", "qharvest.new.json")
	os.WriteFile(out, js, 0o644)
	ctx.Set("states_harvested", len(list))
	ctx.Log("harvested %d queue seed states -> %s", len(list), out)
}

// qHarvestPass: one multi-root search per queue configuration from the harvested seeds.
func qHarvestPass(ctx *core.Ctx, pool *par.Pool, alphabet func(c QCfgSpec) []Q, depth int, space, probe bool, owns func(string) bool, stride int) (total xstate.Stats, seeds int) {
	by := map[string][][]Q{}
	cfgOf := map[string]QCfgSpec{}
	for i, h := range qharvestSeeds() {
		if stride > 1 && i%stride != 0 {
			continue
		}
		by[h.Cfg.String()] = append(by[h.Cfg.String()], h.Path)
		cfgOf[h.Cfg.String()] = h.Cfg
	}
	var names []string
	for k := range by {
		names = append(names, k)
	}
	sort.Strings(names)
	for _, k := range names {
		seeds += len(by[k])
		st := qBFSroots(ctx, pool, cfgOf[k], by[k], alphabet(cfgOf[k]), depth, space, probe, owns, nil)
		total.States += st.States
		total.Transitions += st.Transitions
	}
	return
}
