package props

import (
	"encoding/json"
	"fmt"
	"os"
	"sort"
	"time"

	txfile "github.com/elastic/go-txfile"

	"verif/engine/core"
	"verif/engine/explore"
	"verif/engine/pagedrv"
	"verif/engine/par"
	"verif/engine/sched"
	"verif/engine/simdisk"
)

// C02: snapshot isolation. One writer program against 1-2 readers (each reads
// every page twice with a scheduling point in between) plus the library's
// background writer, under every schedule within the preemption bound.

func init() {
	explore.Scenarios["isolation"] = mkIsolationScenario
	register(&Check{ID: "C02", Level: "model_checking", Replay: replayExplore, Run: runC02})
}

// IsoParams describes one isolation scenario.
type IsoParams struct {
	Cfg     string `json:"cfg"`
	Prefix  string `json:"prefix"`
	Program []O    `json:"program"` // writer body (after its Begin)
	Begin   O      `json:"begin"`
	Ending  string `json:"ending"` // commit | rollback | commitfail | commit2 (two transactions)
	Readers int    `json:"readers"`
}

func (p IsoParams) String() string {
	return fmt.Sprintf("%s/%s/%v;[%s]/%s/R%d", p.Cfg, p.Prefix, p.Begin, pagedrv.PathString(p.Program), p.Ending, p.Readers)
}

var isoPrefixes = map[string][]O{
	"plain": {{K: pagedrv.OBegin}, {K: pagedrv.OAlloc, A: 2}, {K: pagedrv.OWriteAll}, {K: pagedrv.OSetRoot, A: 0}, {K: pagedrv.OCommit}},
	"wal": {{K: pagedrv.OBegin}, {K: pagedrv.OAlloc, A: 2}, {K: pagedrv.OWriteAll}, {K: pagedrv.OCommit},
		{K: pagedrv.OBegin}, {K: pagedrv.OWrite, A: 0}, {K: pagedrv.OCommit}},
	"frag": {{K: pagedrv.OBegin}, {K: pagedrv.OAlloc, A: 7}, {K: pagedrv.OWriteAll}, {K: pagedrv.OCommit},
		{K: pagedrv.OBegin}, {K: pagedrv.OFreeEveryOther, A: 1}, {K: pagedrv.OWrite, A: 0}, {K: pagedrv.OCommit}},
	// 60 live pages on an unbounded file mapped at 64 pages: the next larger allocation forces a remap in commit
	"nearmmap": {{K: pagedrv.OBegin}, {K: pagedrv.OAlloc, A: 58}, {K: pagedrv.OWrite, A: 0}, {K: pagedrv.OWrite, A: -1}, {K: pagedrv.OCommit}},
}

type isoRead struct {
	reader     int
	lo, hi     int
	first, sec map[uint64][]byte
	root       uint64
	err        string
}

type isoShared struct {
	started, completed int
	states             []pagedrv.State
	reads              []*isoRead
	viol               []pagedrv.Violation
	events             []byte
}

//go:norace
func (s *isoShared) add(class, format string, args ...interface{}) {
	s.viol = append(s.viol, pagedrv.Violation{Class: class, Msg: fmt.Sprintf(format, args...)})
}

//go:norace
func (s *isoShared) commitStart() { s.started++; s.events = append(s.events, 'S') }

//go:norace
func (s *isoShared) commitDone(ok bool, st pagedrv.State) {
	if ok {
		s.states = append(s.states, st)
		s.completed++
		s.events = append(s.events, 'C')
	} else {
		s.started-- // a failed commit never becomes visible
		s.events = append(s.events, 'F')
	}
}

//go:norace
func (s *isoShared) beginCall() int { s.events = append(s.events, 'b'); return s.completed }

//go:norace
func (s *isoShared) beginReturn() int { s.events = append(s.events, 'r'); return s.started }

//go:norace
func (s *isoShared) record(r *isoRead) {
	s.reads = append(s.reads, r)
	s.events = append(s.events, 'x')
}

//go:norace
func (s *isoShared) mark(c byte) { s.events = append(s.events, c) }

func readVector(tx *txfile.Tx, ids []uint64) map[uint64][]byte {
	out := map[uint64][]byte{}
	for _, id := range ids {
		p, err := tx.Page(txfile.PageID(id))
		if err != nil {
			continue
		}
		b, err := p.Bytes()
		if err != nil {
			continue
		}
		out[id] = append([]byte(nil), b...)
		if os.Getenv("VERIF_DEBUG_IO") != "" {
			fmt.Printf("    [io] thread %d reads page %d: %s\n", sched.Self(), id, pagedrv.Describe(b))
		}
	}
	return out
}

func matchState(ps int, vec map[uint64][]byte, root uint64, st pagedrv.State) string {
	if root != st.Root {
		return fmt.Sprintf("root %d != %d", root, st.Root)
	}
	for _, id := range st.IDs() {
		b, ok := vec[id]
		if !ok {
			return fmt.Sprintf("page %d not readable", id)
		}
		exp := pagedrv.PageBytes(ps, id, st.Pages[id])
		v := st.Pages[id]
		h := ps / 2
		if v[0] != pagedrv.Undef && string(b[:h]) != string(exp[:h]) || v[1] != pagedrv.Undef && string(b[h:]) != string(exp[h:]) {
			return fmt.Sprintf("page %d reads %s, state has %v", id, pagedrv.Describe(b), v)
		}
	}
	return ""
}

func mkIsolationScenario(raw json.RawMessage) (explore.Body, error) {
	var p IsoParams
	if err := json.Unmarshal(raw, &p); err != nil {
		return nil, err
	}
	cfg, ok := pagedrv.CfgByName(p.Cfg)
	if !ok {
		return nil, fmt.Errorf("unknown cfg %s", p.Cfg)
	}
	prefix, ok := isoPrefixes[p.Prefix]
	if !ok {
		return nil, fmt.Errorf("unknown prefix %s", p.Prefix)
	}
	return func() []pagedrv.Violation {
		sched.Quiet(true)
		env, err := pagedrv.New(cfg)
		if err != nil {
			return []pagedrv.Violation{{Class: "engine", Msg: err.Error()}}
		}
		for _, op := range prefix {
			env.Apply(op)
		}
		if len(env.Viol) > 0 || env.Dead {
			return env.Viol
		}
		// the page ids a reader looks at: everything live before, plus whatever the
		// writer may allocate (known after a dry model run is not available: read
		// a generous id range instead)
		var ids []uint64
		maxID := uint64(0)
		for _, id := range env.M.IDs() {
			if id > maxID {
				maxID = id
			}
		}
		for id := uint64(2); id <= maxID+12; id++ {
			ids = append(ids, id)
		}
		sh := &isoShared{states: []pagedrv.State{env.ByTxid[env.LastTxid]}}
		f := env.F
		env.ReadCheck = false
		sched.LetOthersRun()
		sched.Quiet(false)

		var tids []int
		tids = append(tids, sched.Spawn("W", func() {
			rounds := 1
			if p.Ending == "commit2" {
				rounds = 2
			}
			for round := 0; round < rounds && !env.Dead; round++ {
				env.Apply(p.Begin)
				for _, op := range p.Program {
					if env.Dead {
						return
					}
					if env.Enabled(op) {
						env.Apply(op)
					}
				}
				if env.Dead || env.T == nil {
					return
				}
				switch p.Ending {
				case "rollback":
					sh.mark('R')
					env.Apply(O{K: pagedrv.ORollback})
				case "commitfail":
					sh.commitStart()
					env.Disk.PlanNext(simdisk.FaultError, 2)
					err := env.Tx.Commit()
					env.Disk.SetPlan(nil)
					env.Tx, env.T = nil, nil
					sh.commitDone(false, pagedrv.State{})
					if err == nil {
						sh.add("isolation/commit-ok-despite-failure", "Commit returned nil although its I/O failed")
					}
				default:
					next := env.CommitModel()
					sh.commitStart()
					env.Apply(O{K: pagedrv.OCommit})
					committed := env.LastTxid
					_ = committed
					// Env.Commit folds the model on success
					okc := len(env.Obs) > 0 && env.Obs[len(env.Obs)-1] == "commit=ok"
					sh.commitDone(okc, next)
				}
			}
		}))
		for ri := 0; ri < p.Readers; ri++ {
			ri := ri
			tids = append(tids, sched.Spawn(fmt.Sprintf("R%d", ri), func() {
				r := &isoRead{reader: ri}
				r.lo = sh.beginCall()
				tx, err := f.BeginReadonly()
				r.hi = sh.beginReturn()
				if err != nil {
					sh.add("isolation/begin-error", "BeginReadonly failed: %v", err)
					return
				}
				r.root = uint64(tx.Root())
				r.first = readVector(tx, ids)
				sched.Step("reader between its two reads")
				r.sec = readVector(tx, ids)
				if uint64(tx.Root()) != r.root {
					r.err = "root changed inside the read transaction"
				}
				sh.record(r)
				if err := tx.Close(); err != nil {
					sh.add("isolation/close-error", "read Tx.Close failed: %v", err)
				}
			}))
		}
		for _, id := range tids {
			sched.Join(id)
		}
		viol := append([]pagedrv.Violation(nil), sh.viol...)
		for _, r := range sh.reads {
			if r.err != "" {
				viol = append(viol, pagedrv.Violation{Class: "isolation/unstable-view", Msg: r.err})
			}
			// allowed states: [last commit completed before BeginReadonly was called,
			//                  last commit started before it returned]
			hi := r.hi
			if hi >= len(sh.states) {
				hi = len(sh.states) - 1
			}
			matched := -1
			var why []string
			for k := r.lo; k <= hi; k++ {
				m1 := matchState(cfg.PageSize, r.first, r.root, sh.states[k])
				if m1 == "" {
					matched = k
					break
				}
				why = append(why, fmt.Sprintf("state %d: %s", k, m1))
			}
			if matched < 0 {
				// distinguish "saw something older/newer" from "saw a mixture"
				class := "isolation/no-committed-state"
				for k := range sh.states {
					if matchState(cfg.PageSize, r.first, r.root, sh.states[k]) == "" {
						class = "isolation/wrong-committed-state"
					}
				}
				viol = append(viol, pagedrv.Violation{Class: class, Msg: fmt.Sprintf("reader %d (allowed commits %d..%d of %d) saw none of them: %v", r.reader, r.lo, hi, len(sh.states)-1, why)})
				continue
			}
			if m2 := matchState(cfg.PageSize, r.sec, r.root, sh.states[matched]); m2 != "" {
				viol = append(viol, pagedrv.Violation{Class: "isolation/unstable-view", Msg: fmt.Sprintf("reader %d first saw commit %d, later in the same transaction: %s", r.reader, matched, m2)})
			}
		}
		// final state
		env.ReadCheck = true
		if !env.Dead && env.F != nil && env.T == nil {
			env.VerifyRead("after all threads finished")
		}
		viol = append(viol, env.Viol...)
		sort.Slice(sh.reads, func(i, j int) bool { return sh.reads[i].reader < sh.reads[j].reader })
		explore.SetOutcome(string(sh.events))
		env.CloseFile()
		return dedupViol(viol)
	}, nil
}

func dedupViol(v []pagedrv.Violation) []pagedrv.Violation {
	seen := map[string]bool{}
	var out []pagedrv.Violation
	for _, x := range v {
		k := x.Class + "|" + x.Msg
		if !seen[k] {
			seen[k] = true
			out = append(out, x)
		}
	}
	return out
}

func isoScenarios(quick bool) (ps []interface{}, names []string) {
	add := func(p IsoParams) {
		ps = append(ps, p)
		names = append(names, p.String())
	}
	B := O{K: pagedrv.OBegin}
	B1 := O{K: pagedrv.OBegin, A: 1}
	progs := [][]O{
		{{K: pagedrv.OWrite, A: 0, B: pagedrv.WFull}},
		{{K: pagedrv.OWrite, A: 0, B: pagedrv.WPartial}, {K: pagedrv.OFlushTx}},
		{{K: pagedrv.OFree, A: 0}, {K: pagedrv.OAlloc, A: 1}, {K: pagedrv.OWrite, A: -1, B: pagedrv.WFull}},
		{{K: pagedrv.OCheckpoint}, {K: pagedrv.OWrite, A: -1, B: pagedrv.WFull}},
	}
	for _, pre := range []string{"plain", "wal", "frag"} {
		for pi, prog := range progs {
			for _, ending := range []string{"commit", "rollback", "commitfail"} {
				if quick && (ending != "commit" && pi > 1 || pre == "frag" && pi > 1) {
					continue
				}
				add(IsoParams{Cfg: "A", Prefix: pre, Begin: B, Program: prog, Ending: ending, Readers: 1})
			}
		}
		add(IsoParams{Cfg: "A", Prefix: pre, Begin: B1, Program: progs[0], Ending: "commit", Readers: 1})
		add(IsoParams{Cfg: "A", Prefix: pre, Begin: B, Program: progs[0], Ending: "commit", Readers: 2})
		if pre == "plain" || !quick {
			add(IsoParams{Cfg: "A", Prefix: pre, Begin: B, Program: progs[0], Ending: "commit2", Readers: 1})
		}
		if !quick {
			add(IsoParams{Cfg: "A", Prefix: pre, Begin: B1, Program: progs[1], Ending: "commit", Readers: 2})
			add(IsoParams{Cfg: "C", Prefix: pre, Begin: B, Program: progs[2], Ending: "commit", Readers: 2})
		}
	}
	// remap in commit while a reader is alive
	grow := []O{{K: pagedrv.OAlloc, A: 7}, {K: pagedrv.OWrite, A: 0, B: pagedrv.WFull}}
	add(IsoParams{Cfg: "C", Prefix: "nearmmap", Begin: B, Program: grow, Ending: "commit", Readers: 1})
	if !quick {
		add(IsoParams{Cfg: "C", Prefix: "nearmmap", Begin: B, Program: grow, Ending: "commit", Readers: 2})
		add(IsoParams{Cfg: "C", Prefix: "nearmmap", Begin: B, Program: grow, Ending: "commitfail", Readers: 1})
	}
	return
}

func runC02(ctx *core.Ctx, pool *par.Pool) {
	small, large := 2, 1
	ctx.SetBudget(110 * time.Second)
	if !ctx.Quick() {
		small, large = 3, 2
		ctx.SetBudget(15 * time.Minute)
	}
	ps, names := isoScenarios(ctx.Quick())
	bounds := func(i int) explore.Bounds {
		if ps[i].(IsoParams).Readers <= 1 {
			return explore.Bounds{Preempt: small}
		}
		return explore.Bounds{Preempt: large}
	}
	execs, points, outcomes := exploreAll(ctx, pool, "isolation", ps, names, bounds, "explore")
	ctx.Set("scenarios", len(ps))
	ctx.Set("preemption_bound", fmt.Sprintf("%d with one reader, %d with two (writer thread, readers and the library's background writer)", small, large))
	ctx.Set("states", points)
	ctx.Set("transitions", execs)
	ctx.Set("schedules_explored", execs)
	ctx.Set("distinct_outcomes", len(outcomes))
	ctx.Set("traces_validated_against_impl", execs)
	ctx.Set("explanation", "stateless exploration of the real implementation: 'transitions' = complete schedules executed, 'states' = choice points visited; outcomes are the distinct orders of begin/commit/read events observed")
}
