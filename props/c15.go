package props

import (
	"encoding/json"
	"fmt"
	"time"

	txfile "github.com/elastic/go-txfile"
	"github.com/elastic/go-txfile/txerr"

	"verif/engine/core"
	"verif/engine/pagedrv"
	"verif/engine/par"
	"verif/engine/xstate"
)

// C15 (page store part): misuse is an error, never a panic, changes nothing.
// The full matrix receiver state x method is enumerated after every prefix
// history of a small BFS. The queue part lives in queue_checks.go.

func init() {
	TaskHandlers["misuse"] = handleMisuse
	register(&Check{ID: "C15", Level: "model_checking", Replay: replayMisuse, Run: runC15})
}

// MisuseTask: replay Path (quiescent at its end), then run the matrix.
type MisuseTask struct {
	Type string `json:"type"`
	Cfg  string `json:"cfg"`
	Path []O    `json:"path"`
	Only string `json:"only,omitempty"` // receiver state to run (replay)
}

// MisuseResult is the answer.
type MisuseResult struct {
	EngineError string              `json:"engine_error,omitempty"`
	Cells       int                 `json:"cells"`
	Outcomes    map[string]int      `json:"outcomes"`
	Viol        []pagedrv.Violation `json:"viol,omitempty"`
	States      []string            `json:"states,omitempty"`
	Sample      interface{}         `json:"sample,omitempty"`
}

type want int

const (
	wantAny      want = iota // must not panic; result not judged
	wantErr                  // must return a non-nil error
	wantFinished             // TxFinished
	wantReadOnly             // TxReadOnly
	wantInvalid              // InvalidOp
	wantParam                // InvalidParam
	wantNil                  // must succeed
)

func (w want) String() string {
	return [...]string{"any", "error", "TxFinished", "TxReadOnly", "InvalidOp", "InvalidParam", "nil"}[w]
}

func judge(w want, err error) string {
	switch w {
	case wantAny:
		return ""
	case wantNil:
		if err != nil {
			return fmt.Sprintf("returned %v, expected success", err)
		}
	case wantErr:
		if err == nil {
			return "returned nil, expected an error"
		}
	default:
		if err == nil {
			return "returned nil, expected an error of kind " + w.String()
		}
		kind := map[want]txfile.ErrKind{wantFinished: txfile.TxFinished, wantReadOnly: txfile.TxReadOnly, wantInvalid: txfile.InvalidOp, wantParam: txfile.InvalidParam}[w]
		if !txerr.Is(kind, err) {
			return fmt.Sprintf("returned %q (kind %s), documented kind is %s", err.Error(), pagedrv.ErrKind(err), w)
		}
	}
	return ""
}

type txCall struct {
	name string
	fn   func(tx *txfile.Tx, ids misuseIDs) error
}

type misuseIDs struct {
	live, freed, end, huge uint64
	beyond                 uint64 // allocated by a concurrently open write transaction: beyond a reader's snapshot
}

var txCalls = []txCall{
	{"Alloc", func(tx *txfile.Tx, _ misuseIDs) error { _, err := tx.Alloc(); return err }},
	{"AllocN(2)", func(tx *txfile.Tx, _ misuseIDs) error { _, err := tx.AllocN(2); return err }},
	{"Page(live)", func(tx *txfile.Tx, i misuseIDs) error { _, err := tx.Page(txfile.PageID(i.live)); return err }},
	{"Page(0)", func(tx *txfile.Tx, _ misuseIDs) error { _, err := tx.Page(0); return err }},
	{"Page(1)", func(tx *txfile.Tx, _ misuseIDs) error { _, err := tx.Page(1); return err }},
	{"Page(end)", func(tx *txfile.Tx, i misuseIDs) error { _, err := tx.Page(txfile.PageID(i.end)); return err }},
	{"Page(huge)", func(tx *txfile.Tx, i misuseIDs) error { _, err := tx.Page(txfile.PageID(i.huge)); return err }},
	{"Page(freed)", func(tx *txfile.Tx, i misuseIDs) error { _, err := tx.Page(txfile.PageID(i.freed)); return err }},
	{"Page(beyond-snapshot)", func(tx *txfile.Tx, i misuseIDs) error { _, err := tx.Page(txfile.PageID(i.beyond)); return err }},
	{"RootPage", func(tx *txfile.Tx, _ misuseIDs) error { _, err := tx.RootPage(); return err }},
	{"Flush", func(tx *txfile.Tx, _ misuseIDs) error { return tx.Flush() }},
	{"CheckpointWAL", func(tx *txfile.Tx, _ misuseIDs) error { return tx.CheckpointWAL() }},
	{"accessors", func(tx *txfile.Tx, _ misuseIDs) error {
		_ = tx.Active()
		_ = tx.Readonly()
		_ = tx.Writable()
		_ = tx.Root()
		return nil
	}},
	{"Rollback", func(tx *txfile.Tx, _ misuseIDs) error { return tx.Rollback() }},
	{"Commit", func(tx *txfile.Tx, _ misuseIDs) error { return tx.Commit() }},
	{"Close", func(tx *txfile.Tx, _ misuseIDs) error { return tx.Close() }},
}

// expectations per transaction state
func txWant(state, call string) want {
	finished := state == "committed" || state == "rolledback" || state == "closed" || state == "failedcommit" || state == "committed+checkpoint" || state == "rolledback+checkpoint"
	switch {
	case finished:
		switch call {
		case "Close":
			return wantNil // documented: safe to call multiple times
		case "accessors":
			return wantAny
		case "Page(live)", "Page(0)", "Page(1)", "Page(end)", "Page(huge)", "Page(freed)":
			return wantErr
		case "RootPage":
			return wantAny // nil,nil without a root
		default:
			return wantFinished
		}
	case state == "readonly" || state == "readonly+writer":
		switch call {
		case "Alloc", "AllocN(2)", "Flush", "CheckpointWAL":
			return wantReadOnly
		case "Page(0)", "Page(1)", "Page(end)", "Page(huge)", "Page(beyond-snapshot)":
			return wantErr
		}
		return wantAny
	case state == "active":
		switch call {
		case "Page(0)", "Page(1)", "Page(end)", "Page(huge)":
			return wantErr
		case "Page(freed)":
			return wantInvalid
		}
		return wantAny
	}
	return wantAny
}

type pageCall struct {
	name string
	fn   func(p *txfile.Page, ps int) error
}

var pageCalls = []pageCall{
	{"Bytes", func(p *txfile.Page, _ int) error { _, err := p.Bytes(); return err }},
	{"SetBytes(full)", func(p *txfile.Page, ps int) error { return p.SetBytes(make([]byte, ps)) }},
	{"SetBytes(oversize)", func(p *txfile.Page, ps int) error { return p.SetBytes(make([]byte, ps+1)) }},
	{"Load", func(p *txfile.Page, _ int) error { return p.Load() }},
	{"MarkDirty", func(p *txfile.Page, _ int) error { return p.MarkDirty() }},
	{"Free", func(p *txfile.Page, _ int) error { return p.Free() }},
	{"Flush", func(p *txfile.Page, _ int) error { return p.Flush() }},
	{"accessors", func(p *txfile.Page, _ int) error { _ = p.ID(); _ = p.Dirty(); return nil }},
}

func pageWant(state, call string) want {
	if call == "accessors" {
		return wantAny
	}
	switch state {
	case "finished-tx":
		if call == "Bytes" {
			return wantFinished
		}
		return wantFinished
	case "readonly-tx":
		if call == "Bytes" {
			return wantNil
		}
		return wantReadOnly
	case "freed":
		if call == "Bytes" {
			return wantAny
		}
		if call == "SetBytes(oversize)" {
			return wantErr
		}
		return wantInvalid
	case "flushed":
		switch call {
		case "Bytes":
			return wantNil
		case "SetBytes(oversize)":
			return wantErr
		case "Flush":
			return wantAny
		}
		return wantInvalid
	case "dirty":
		switch call {
		case "Free":
			return wantInvalid
		case "SetBytes(oversize)":
			return wantParam
		}
		return wantAny
	case "new-empty":
		switch call {
		case "Bytes":
			return wantInvalid
		case "SetBytes(oversize)":
			return wantParam
		}
		return wantAny
	case "clean":
		if call == "SetBytes(oversize)" {
			return wantParam
		}
		return wantAny
	}
	return wantAny
}

// which (state, call) cells are defined as invalid use: only those must leave
// everything unchanged
func isMisuse(w want) bool { return w != wantAny && w != wantNil }

func handleMisuse(raw []byte) interface{} {
	var t MisuseTask
	if err := json.Unmarshal(raw, &t); err != nil {
		return MisuseResult{EngineError: err.Error()}
	}
	cfg, ok := pagedrv.CfgByName(t.Cfg)
	if !ok {
		return MisuseResult{EngineError: "unknown cfg " + t.Cfg}
	}
	res := MisuseResult{Outcomes: map[string]int{}}
	seen := map[string]bool{}
	report := func(state, class, format string, args ...interface{}) {
		if seen[class] {
			return
		}
		seen[class] = true
		res.Viol = append(res.Viol, pagedrv.Violation{Class: class, Msg: fmt.Sprintf(format, args...)})
		res.States = append(res.States, state)
	}

	// "+checkpoint": the transaction ran CheckpointWAL before it ended (per-transaction flags that survive the end)
	txStates := []string{"active", "readonly", "readonly+writer", "committed", "rolledback", "closed", "failedcommit", "committed+checkpoint", "rolledback+checkpoint"}
	pageStates := []string{"finished-tx", "readonly-tx", "freed", "flushed", "dirty", "new-empty", "clean"}

	// runCase replays the prefix, prepares a receiver, calls every method once
	runCase := func(state string, prepare func(e *pagedrv.Env) (tx *txfile.Tx, pg *txfile.Page, ids misuseIDs, live bool), isPage bool) {
		if t.Only != "" && t.Only != state {
			return
		}
		ncalls := len(txCalls)
		if isPage {
			ncalls = len(pageCalls)
		}
		// every cell gets a fresh receiver: the outcome of one call must not depend on the calls tried before
		for only := 0; only < ncalls; only++ {
			only := only
			_, sv, err := xstate.Replay(cfg, t.Path, nil, nil, func(e *pagedrv.Env) {
				if e.Dead || e.T != nil || e.F == nil {
					return
				}
				e.Viol = nil
				tx, pg, ids, live := prepare(e)
				if e.Dead || tx == nil {
					return
				}
				snap := func() string {
					k := e.F.VerifSnapshot()
					k.Stats = txfile.FileStats{}
					js, _ := json.Marshal(k)
					s := string(js)
					if live {
						ts, _ := json.Marshal(tx.VerifTxState())
						s += string(ts)
					}
					return s
				}
				n := len(txCalls)
				if isPage {
					n = len(pageCalls)
				}
				for i := 0; i < n; i++ {
					if i != only {
						continue
					}
					var name string
					var w want
					var err error
					before := snap()
					var pn string
					if isPage {
						c := pageCalls[i]
						name, w = c.name, pageWant(state, c.name)
						if pg == nil {
							continue
						}
						pn = pagedrv.Try(func() { err = c.fn(pg, cfg.PageSize) })
					} else {
						c := txCalls[i]
						name, w = c.name, txWant(state, c.name)
						if c.name == "Page(freed)" && ids.freed == 0 || c.name == "Page(live)" && ids.live == 0 || c.name == "Page(beyond-snapshot)" && ids.beyond == 0 {
							continue
						}
						if !isMisuse(w) && (c.name == "Commit" || c.name == "Rollback" || c.name == "Close" || c.name == "Alloc" || c.name == "AllocN(2)" || c.name == "Flush" || c.name == "CheckpointWAL") && (state == "active" || state == "readonly" || state == "readonly+writer") {
							continue // valid use that changes the receiver: not part of the matrix
						}
						pn = pagedrv.Try(func() { err = c.fn(tx, ids) })
					}
					res.Cells++
					recv := "tx"
					if isPage {
						recv = "page"
					}
					cell := fmt.Sprintf("%s[%s].%s", recv, state, name)
					if pn != "" {
						res.Outcomes["panic"]++
						report(state, "misuse/panic/"+cell, "%s panicked: %s", cell, firstLine(pn))
						e.Dead = true
						return
					}
					if msg := judge(w, err); msg != "" {
						res.Outcomes["wrong-result"]++
						report(state, "misuse/result/"+cell, "%s %s", cell, msg)
					} else {
						res.Outcomes["ok:"+w.String()]++
					}
					if isMisuse(w) && err != nil {
						if after := snap(); after != before {
							report(state, "misuse/changed-state/"+cell, "%s returned an error but changed the state of the file or of the running transaction", cell)
						}
					}
				}
				// the receiver is finished or discarded; the file must still hold the model state
				if live {
					pagedrv.Try(func() { tx.Close() })
				}
				if e.Tx != nil && e.Tx != tx { // the helper writer of "readonly+writer"
					pagedrv.Try(func() { e.Tx.Rollback() })
				}
				e.Tx, e.T = nil, nil
				if !e.VerifyAgainst(e.M, "after the misuse calls", "misuse/committed-state") {
					for _, v := range e.Viol {
						report(state, v.Class+"/"+state, "%s: %s", state, v.Msg)
					}
				}
				e.Viol = nil
				// and a following transaction works
				e.SyncTxid()
				e.Apply(O{K: pagedrv.OBegin})
				if !e.Dead {
					e.Apply(O{K: pagedrv.OAlloc, A: 1})
					e.Apply(O{K: pagedrv.OCommit})
				}
				for _, v := range e.Viol {
					report(state, "misuse/afterwards/"+v.Class+"/"+state, "after misuse of %s: %s", state, v.Msg)
				}
			})
			if err != nil {
				res.EngineError = err.Error()
			}
			for _, v := range sv {
				report(state, "misuse/"+v.Class+"/"+state, "%s: %s", state, v.Msg)
			}
		}
	}

	mkIDs := func(e *pagedrv.Env) misuseIDs {
		s := e.F.VerifSnapshot()
		ids := misuseIDs{end: s.DataEnd, huge: 1 << 40}
		if v := e.M.IDs(); len(v) > 0 {
			ids.live = v[0]
		}
		return ids
	}
	beginW := func(e *pagedrv.Env) *txfile.Tx {
		tx, err := e.F.Begin()
		if err != nil {
			e.Dead = true
			return nil
		}
		return tx
	}

	for _, st := range txStates {
		st := st
		runCase(st, func(e *pagedrv.Env) (*txfile.Tx, *txfile.Page, misuseIDs, bool) {
			ids := mkIDs(e)
			switch st {
			case "readonly", "readonly+writer":
				tx, err := e.F.BeginReadonly()
				if err != nil {
					e.Dead = true
					return nil, nil, ids, false
				}
				if st == "readonly+writer" {
					// a write transaction that stays open and has allocated (and flushed) pages past the reader's snapshot
					e.Apply(O{K: pagedrv.OBegin})
					if !e.Dead {
						before := e.F.VerifSnapshot().DataEnd
						e.Apply(O{K: pagedrv.OAlloc, A: 3})
						for _, id := range newIDs(e) {
							e.WritePage(id, pagedrv.WFull)
							if id >= before && ids.beyond == 0 {
								ids.beyond = id
							}
						}
						e.Apply(O{K: pagedrv.OFlushTx})
						e.Viol = nil
					}
				}
				return tx, nil, ids, true
			}
			tx := beginW(e)
			if tx == nil {
				return nil, nil, ids, false
			}
			// free a live page so that Page(freed) has a target
			if ids.live != 0 {
				live := e.M.IDs()
				fid := live[len(live)-1]
				if len(live) > 1 {
					if p, err := tx.Page(txfile.PageID(fid)); err == nil && p.Free() == nil {
						ids.freed = fid
					}
				}
			}
			if st == "committed+checkpoint" || st == "rolledback+checkpoint" {
				tx.CheckpointWAL()
			}
			switch st {
			case "active":
				return tx, nil, ids, true
			case "rolledback+checkpoint":
				tx.Rollback()
			case "committed", "committed+checkpoint":
				if ids.freed != 0 {
					delete(e.M.Pages, ids.freed)
				}
				if err := tx.Commit(); err != nil {
					e.Dead = true
				}
			case "rolledback":
				tx.Rollback()
			case "closed":
				tx.Close()
			case "failedcommit":
				e.Disk.PlanNext(1, 3)
				err := tx.Commit()
				e.Disk.SetPlan(nil)
				if err == nil {
					if ids.freed != 0 {
						delete(e.M.Pages, ids.freed)
					}
				}
			}
			return tx, nil, ids, false
		}, false)
	}
	for _, st := range pageStates {
		st := st
		runCase(st, func(e *pagedrv.Env) (*txfile.Tx, *txfile.Page, misuseIDs, bool) {
			ids := mkIDs(e)
			if st == "readonly-tx" {
				if ids.live == 0 {
					return nil, nil, ids, false
				}
				tx, err := e.F.BeginReadonly()
				if err != nil {
					e.Dead = true
					return nil, nil, ids, false
				}
				p, err := tx.Page(txfile.PageID(ids.live))
				if err != nil {
					tx.Close()
					return nil, nil, ids, false
				}
				return tx, p, ids, true
			}
			tx := beginW(e)
			if tx == nil {
				return nil, nil, ids, false
			}
			var p *txfile.Page
			var err error
			switch st {
			case "new-empty":
				p, err = tx.Alloc()
			case "finished-tx":
				p, err = tx.Alloc()
				if err == nil {
					tx.Rollback()
					return tx, p, ids, false
				}
			default:
				if ids.live != 0 {
					p, err = tx.Page(txfile.PageID(ids.live))
				} else {
					p, err = tx.Alloc()
				}
			}
			if err != nil || p == nil {
				tx.Close()
				return nil, nil, ids, false
			}
			switch st {
			case "freed":
				if p.Free() != nil {
					tx.Close()
					return nil, nil, ids, false
				}
			case "dirty":
				p.SetBytes(pagedrv.PageBytes(cfg.PageSize, uint64(p.ID()), pagedrv.Val{1, 1}))
			case "flushed":
				p.SetBytes(pagedrv.PageBytes(cfg.PageSize, uint64(p.ID()), pagedrv.Val{1, 1}))
				if p.Flush() != nil {
					tx.Close()
					return nil, nil, ids, false
				}
			}
			return tx, p, ids, true
		}, true)
	}
	res.Sample = map[string]interface{}{"prefix": pagedrv.PathString(t.Path), "cells": res.Cells}
	return res
}

func replayMisuse(raw json.RawMessage) []string {
	var d struct {
		Task MisuseTask `json:"task"`
	}
	if err := json.Unmarshal(raw, &d); err != nil || d.Task.Cfg == "" {
		return xstate.ReplayDoc(raw)
	}
	fmt.Printf("cfg %s prefix: %s\n  receiver state: %s\n", d.Task.Cfg, pagedrv.PathString(d.Task.Path), d.Task.Only)
	js, _ := json.Marshal(d.Task)
	r := handleMisuse(js).(MisuseResult)
	var out []string
	if r.EngineError != "" {
		out = append(out, "violation: engine error: "+r.EngineError)
	}
	fmt.Printf("  cells: %d outcomes: %v\n", r.Cells, r.Outcomes)
	for _, v := range r.Viol {
		out = append(out, fmt.Sprintf("violation: class=%s %s", v.Class, v.Msg))
	}
	return out
}

func runC15(ctx *core.Ctx, pool *par.Pool) {
	cfgs := []pagedrv.Cfg{pagedrv.CfgA, pagedrv.CfgC}
	depth := 7
	ctx.SetBudget(100 * time.Second)
	if !ctx.Quick() {
		cfgs = []pagedrv.Cfg{pagedrv.CfgA, pagedrv.CfgB, pagedrv.CfgC, pagedrv.CfgD}
		depth = 8
		ctx.SetBudget(15 * time.Minute)
	}
	var total xstate.Stats
	cells, prefixes := 0, 0
	outcomes := map[string]int{}
	for _, cfg := range cfgs {
		cfg := cfg
		ctx.Share(ctx.FairShare(len(cfgs), 1))
		var quiet []*xstate.Node
		seenLog := map[string]bool{}
		st := xstate.BFS(ctx, pool, xstate.Spec{Cfg: cfg, Alphabet: crashAlphabet(true), MaxDepth: depth,
			OnLevel: func(d int, fresh []*xstate.Node) {
				for _, n := range fresh {
					if n.Quiet && !seenLog[n.Log] {
						seenLog[n.Log] = true
						quiet = append(quiet, n)
					}
				}
			}})
		total.States += st.States
		total.Transitions += st.Transitions
		tasks := []MisuseTask{{Type: "misuse", Cfg: cfg.Name}}
		for _, n := range quiet {
			tasks = append(tasks, MisuseTask{Type: "misuse", Cfg: cfg.Name, Path: n.Path()})
		}
		raw := make([][]byte, len(tasks))
		for i := range tasks {
			raw[i], _ = json.Marshal(tasks[i])
		}
		skipped := 0
		pool.Run(raw, ctx.Deadline, 10*time.Minute, func(i int, out []byte, terr *par.TaskError) {
			t := tasks[i]
			if terr != nil {
				ctx.EngineError("misuse task [%s]: %s %s", pagedrv.PathString(t.Path), terr.Msg, terr.Stderr)
				return
			}
			var r MisuseResult
			if err := json.Unmarshal(out, &r); err != nil || r.EngineError != "" {
				ctx.EngineError("misuse task [%s]: %v %s", pagedrv.PathString(t.Path), err, r.EngineError)
				return
			}
			prefixes++
			cells += r.Cells
			for k, v := range r.Outcomes {
				outcomes[k] += v
			}
			if r.Sample != nil {
				ctx.AddSample(r.Sample)
			}
			for k, v := range r.Viol {
				tt := t
				tt.Only = r.States[k]
				ctx.Violate(v.Class, fmt.Sprintf("cfg %s after [%s]: %s", cfg.Name, pagedrv.PathString(t.Path), v.Msg),
					map[string]interface{}{"kind": "misuse", "task": tt})
			}
		}, func(int) { skipped++ })
		if skipped > 0 {
			ctx.Cap("cfg %s: deadline reached, %d prefix histories without matrix", cfg.Name, skipped)
		}
	}
	ctx.Unshare()
	ctx.Set("states", total.States)
	ctx.Set("transitions", total.Transitions)
	ctx.Set("prefix_histories", prefixes)
	ctx.Set("matrix_cells_evaluated", cells)
	ctx.Set("cell_outcomes", outcomes)
	ctx.Set("traces_validated_against_impl", cells)
	ctx.Set("explanation", "states/transitions: BFS graph supplying prefix histories; matrix_cells_evaluated: (receiver state x method) calls executed on the real implementation, each judged against the documented result and checked for state invariance")
}
