package props

import (
	"encoding/json"
	"fmt"
	"strings"
	"time"

	"verif/engine/core"
	"verif/engine/pagedrv"
	"verif/engine/par"
	"verif/engine/queuedrv"
	"verif/engine/xstate"
)

// Explicit-state search over queue operations (same scheme as engine/xstate,
// for queuedrv.Env): successors by replay on a fresh instance.

type Q = queuedrv.Op

// QCfgSpec names a queue configuration in tasks.
type QCfgSpec struct {
	File   string `json:"file"`
	Buffer int    `json:"buffer"`
}

func (c QCfgSpec) cfg() (queuedrv.Cfg, error) {
	f, ok := pagedrv.CfgByName(c.File)
	if !ok {
		return queuedrv.Cfg{}, fmt.Errorf("unknown cfg %s", c.File)
	}
	return queuedrv.Cfg{File: f, BufferPages: c.Buffer}, nil
}

func (c QCfgSpec) String() string { return fmt.Sprintf("%s/buf%d", c.File, c.Buffer) }

// QExpandTask asks a child to replay Path and try every enabled operation.
type QExpandTask struct {
	Type     string   `json:"type"`
	Cfg      QCfgSpec `json:"cfg"`
	Path     []Q      `json:"path"`
	Alphabet []Q      `json:"alphabet"`
	Key      string   `json:"key"`
	Space    bool     `json:"space"`           // apply the C12 space oracle at quiescent points
	Probe    bool     `json:"probe"`           // after each transition: drain probe on the (discarded) instance
	Judge    bool     `json:"judge,omitempty"` // also report what the oracles say about Path itself (root of a seeded search)
}

// drainProbe runs on an instance that is thrown away afterwards: finish the
// reader transaction, flush, read everything, append one more event, flush,
// read, reopen, append, read. Whatever state the history left behind, every
// complete event must come out, in order, exactly once.
func drainProbe(e *queuedrv.Env) {
	steps := []Q{{K: queuedrv.QDone}, {K: queuedrv.QFlush}, {K: queuedrv.QReadAll}, {K: queuedrv.QWrite, A: 700, B: queuedrv.ChunkFirst}, {K: queuedrv.QFlush},
		{K: queuedrv.QReadAll}, {K: queuedrv.QAck}, {K: queuedrv.QReopen}, {K: queuedrv.QWrite, A: 1200}, {K: queuedrv.QFlush}, {K: queuedrv.QReadAll}}
	for _, op := range steps {
		if e.Dead {
			return
		}
		if e.Enabled(op) {
			e.Apply(op)
		}
	}
	if !e.Dead && e.Full == 0 && e.ReadPos != len(e.Events) {
		e.Viol = append(e.Viol, pagedrv.Violation{Class: "deliver/missing", Msg: fmt.Sprintf("after flushing and reading everything the reader delivered events up to #%d of %d", e.ReadPos, len(e.Events))})
	}
}

// QSucc is one explored queue transition.
type QSucc struct {
	Op    Q                   `json:"op"`
	Key   string              `json:"key"`
	Viol  []pagedrv.Violation `json:"viol,omitempty"`
	Dead  bool                `json:"dead,omitempty"`
	Quiet bool                `json:"quiet,omitempty"`
	IO    bool                `json:"io,omitempty"` // the operation wrote to the file
	Desc  string              `json:"desc,omitempty"`
}

// QExpandResult is the answer.
type QExpandResult struct {
	EngineError string              `json:"engine_error,omitempty"`
	Key         string              `json:"key"`
	Succ        []QSucc             `json:"succ"`
	PathViol    []pagedrv.Violation `json:"path_viol,omitempty"`
}

// qReplay runs path (+extra) on a fresh queue instance under the scheduler.
func qReplay(cfg queuedrv.Cfg, path []Q, extra *Q, logIO bool, after func(e *queuedrv.Env)) (*queuedrv.Env, []pagedrv.Violation, error) {
	var env *queuedrv.Env
	var err error
	sv := xstate.Run(func() {
		env, err = queuedrv.New(cfg)
		if err != nil {
			return
		}
		if logIO {
			env.Disk.StartLog()
		}
		for _, op := range path {
			if env.Dead {
				return
			}
			env.Apply(op)
		}
		if extra != nil && !env.Dead {
			env.Viol = nil
			env.Apply(*extra)
		}
		if after != nil {
			after(env)
		}
	})
	return env, sv, err
}

func handleQExpand(raw []byte) interface{} {
	var t QExpandTask
	if err := json.Unmarshal(raw, &t); err != nil {
		return QExpandResult{EngineError: err.Error()}
	}
	cfg, err := t.Cfg.cfg()
	if err != nil {
		return QExpandResult{EngineError: err.Error()}
	}
	var res QExpandResult
	var enabled []Q
	env, sv, err := qReplay(cfg, t.Path, nil, false, func(e *queuedrv.Env) {
		if e.Dead {
			return
		}
		res.Key = e.Key()
		for _, op := range t.Alphabet {
			if e.Enabled(op) {
				enabled = append(enabled, op)
			}
		}
	})
	if err != nil {
		return QExpandResult{EngineError: "cannot create queue: " + err.Error()}
	}
	if t.Judge {
		if v := append(append([]pagedrv.Violation{}, env.Viol...), sv...); len(v) > 0 {
			res.PathViol = v
			return res
		}
	}
	if len(sv) > 0 || env.Dead {
		return QExpandResult{EngineError: fmt.Sprintf("replay of an explored path failed: %v %v", sv, env.Viol)}
	}
	if t.Key != "" && res.Key != t.Key {
		return QExpandResult{EngineError: fmt.Sprintf("replay diverged: key %s, expected %s, path %s", res.Key, t.Key, queuedrv.PathString(t.Path))}
	}
	for _, op := range enabled {
		op := op
		s := QSucc{Op: op}
		env, sv, err := qReplay(cfg, t.Path, &op, false, func(e *queuedrv.Env) {
			s.Dead = e.Dead
			s.Quiet = !e.InTx
			if !e.Dead {
				if t.Space {
					e.CheckSpace(op.String())
				}
				s.Key = e.Key()
				s.Desc = e.Describe()
				if t.Probe {
					drainProbe(e)
				}
			}
		})
		if err != nil {
			return QExpandResult{EngineError: err.Error()}
		}
		s.Viol = append(env.Viol, sv...)
		if len(sv) > 0 {
			s.Dead = true
		}
		res.Succ = append(res.Succ, s)
	}
	return res
}

// QNode is a state of the queue search graph.
type QNode struct {
	Key    string
	Parent *QNode
	Op     Q
	Depth  int
	Quiet  bool
}

// Path returns the operations leading to n.
func (n *QNode) Path() []Q {
	var p []Q
	for x := n; x != nil && x.Parent != nil; x = x.Parent {
		p = append(p, x.Op)
	}
	for i, j := 0, len(p)-1; i < j; i, j = i+1, j-1 {
		p[i], p[j] = p[j], p[i]
	}
	return p
}

// QPathDoc is the replay document of a queue path violation.
type QPathDoc struct {
	Kind  string   `json:"kind"`
	Cfg   QCfgSpec `json:"cfg"`
	Path  []Q      `json:"path"`
	Space bool     `json:"space"`
	Probe bool     `json:"probe"`
}

// qBFS runs the search; classes selects which violation classes this check
// owns (prefix match), others are ignored here and reported by their owner.
func qBFS(ctx *core.Ctx, pool *par.Pool, cfg QCfgSpec, alphabet []Q, maxDepth int, space bool, owns func(class string) bool,
	onTransition func(from *QNode, s *QSucc, isNew bool)) xstate.Stats {
	return qBFSx(ctx, pool, cfg, alphabet, maxDepth, space, false, owns, onTransition)
}

func qBFSx(ctx *core.Ctx, pool *par.Pool, cfg QCfgSpec, alphabet []Q, maxDepth int, space, probe bool, owns func(class string) bool,
	onTransition func(from *QNode, s *QSucc, isNew bool)) xstate.Stats {
	return qBFSfrom(ctx, pool, cfg, nil, alphabet, maxDepth, space, probe, owns, onTransition)
}

// qBFSfrom starts the search in the state reached by the seed history (part of
// every reported path).
func qBFSfrom(ctx *core.Ctx, pool *par.Pool, cfg QCfgSpec, seed []Q, alphabet []Q, maxDepth int, space, probe bool, owns func(class string) bool,
	onTransition func(from *QNode, s *QSucc, isNew bool)) xstate.Stats {
	return qBFSroots(ctx, pool, cfg, [][]Q{seed}, alphabet, maxDepth, space, probe, owns, onTransition)
}

// qBFSroots searches from several start states at once (shared duplicate detection).
func qBFSroots(ctx *core.Ctx, pool *par.Pool, cfg QCfgSpec, seeds [][]Q, alphabet []Q, maxDepth int, space, probe bool, owns func(class string) bool,
	onTransition func(from *QNode, s *QSucc, isNew bool)) xstate.Stats {

	var st xstate.Stats
	seen := map[string]*QNode{}
	roots := map[*QNode]bool{}
	var frontier []*QNode
	for _, seed := range seeds {
		root := &QNode{Quiet: true}
		for _, op := range seed {
			root = &QNode{Parent: root, Op: op, Quiet: true}
		}
		roots[root] = true
		frontier = append(frontier, root)
	}
	first := true
	for depth := 0; len(frontier) > 0; depth++ {
		if maxDepth > 0 && depth >= maxDepth {
			ctx.Set("bound_"+cfg.String(), fmt.Sprintf("all queue histories of at most %d operations over the alphabet (%d states at the bound unexpanded)", maxDepth, len(frontier)))
			break
		}
		if ctx.Expired() {
			ctx.Cap("queue cfg %s: deadline reached at depth %d (%d frontier states unexpanded)", cfg, depth, len(frontier))
			break
		}
		tasks := make([][]byte, len(frontier))
		for i, n := range frontier {
			tasks[i], _ = json.Marshal(QExpandTask{Type: "qexpand", Cfg: cfg, Path: n.Path(), Alphabet: alphabet, Key: n.Key, Space: space, Probe: probe,
				Judge: first && roots[n] && n.Parent != nil})
		}
		var next []*QNode
		skipped := 0
		pool.Run(tasks, ctx.Deadline, 10*time.Minute, func(i int, raw []byte, terr *par.TaskError) {
			from := frontier[i]
			if terr != nil {
				ctx.EngineError("qexpand %s [%s]: %s %s", cfg, queuedrv.PathString(from.Path()), terr.Msg, terr.Stderr)
				return
			}
			var r QExpandResult
			if err := json.Unmarshal(raw, &r); err != nil || r.EngineError != "" {
				ctx.EngineError("qexpand %s [%s]: %v %s", cfg, queuedrv.PathString(from.Path()), err, r.EngineError)
				return
			}
			for _, v := range r.PathViol {
				if owns != nil && !owns(v.Class) {
					continue
				}
				ctx.Violate(v.Class, fmt.Sprintf("queue %s after [%s] (seed history of this search): %s", cfg, queuedrv.PathString(from.Path()), v.Msg),
					QPathDoc{Kind: "qpath", Cfg: cfg, Path: from.Path(), Space: space, Probe: probe})
			}
			if first && roots[from] {
				from.Key = r.Key
				if _, dup := seen[r.Key]; !dup {
					seen[r.Key] = from
					st.States++
				}
			}
			for k := range r.Succ {
				s := &r.Succ[k]
				st.Transitions++
				path := append(from.Path(), s.Op)
				for _, v := range s.Viol {
					if owns != nil && !owns(v.Class) {
						continue
					}
					ctx.Violate(v.Class, fmt.Sprintf("queue %s after [%s]: %s", cfg, queuedrv.PathString(path), v.Msg),
						QPathDoc{Kind: "qpath", Cfg: cfg, Path: path, Space: space, Probe: probe})
				}
				isNew := false
				if !s.Dead && s.Key != "" {
					if _, ok := seen[s.Key]; !ok {
						n := &QNode{Key: s.Key, Parent: from, Op: s.Op, Depth: from.Depth + 1, Quiet: s.Quiet}
						seen[s.Key] = n
						next = append(next, n)
						st.States++
						isNew = true
					}
				}
				if onTransition != nil {
					onTransition(from, s, isNew)
				}
			}
		}, func(int) { skipped++ })
		first = false
		st.Depth = depth + 1
		ctx.Log("queue %s depth %d: %d new states, %d total, %d transitions", cfg, depth+1, len(next), st.States, st.Transitions)
		frontier = next
		if skipped > 0 {
			ctx.Cap("queue cfg %s: deadline reached inside depth %d (%d states unexpanded)", cfg, depth, skipped)
			break
		}
	}
	st.Closed = len(frontier) == 0
	return st
}

func replayQPath(raw json.RawMessage) []string {
	var d QPathDoc
	if err := json.Unmarshal(raw, &d); err != nil || d.Cfg.File == "" {
		return []string{"violation: bad replay document"}
	}
	cfg, err := d.Cfg.cfg()
	if err != nil {
		return []string{"violation: " + err.Error()}
	}
	fmt.Printf("queue %s path: %s\n", d.Cfg, queuedrv.PathString(d.Path))
	env, sv, err := qReplay(cfg, d.Path, nil, false, func(e *queuedrv.Env) {
		if d.Space && !e.Dead {
			e.CheckSpace("replay")
		}
		if d.Probe && !e.Dead {
			drainProbe(e)
		}
	})
	if err != nil {
		return []string{"violation: " + err.Error()}
	}
	fmt.Println("  model:", env.Describe())
	if env.F != nil {
		sn := env.F.VerifSnapshot()
		fmt.Printf("  file: maxPages=%d dataEnd=%d metaEnd=%d dataFree=%v(%d) metaFree=%v(%d) metaTotal=%d freelistPages=%v wal=%v walPages=%v stats=%+v extent=%d\n",
			sn.MaxPages, sn.DataEnd, sn.MetaEnd, sn.DataFree, sn.DataAvail, sn.MetaFree, sn.MetaAvail, sn.MetaTotal, sn.FreelistPages, sn.WALMapping, sn.WALMetaPages, sn.Stats, env.Disk.Len())
	}
	for _, o := range env.Obs {
		fmt.Println("  obs:", o)
	}
	var out []string
	for _, v := range append(env.Viol, sv...) {
		out = append(out, fmt.Sprintf("violation: class=%s %s", v.Class, strings.ReplaceAll(v.Msg, "\n", " | ")))
	}
	return out
}
