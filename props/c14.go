package props

import (
	"fmt"
	"time"

	"verif/engine/core"
	"verif/engine/pagedrv"
	"verif/engine/par"
	"verif/engine/xstate"
)

// C14: changing the maximum size on open. ReopenWith(new max, prealloc) is an
// operation of the BFS alphabet, so every prior history of the graph is
// combined with every (old, new) pair and followed by further history.

func init() {
	xstate.Hooks["c14"] = hookC14
	register(&Check{ID: "C14", Level: "model_checking", Replay: xstate.ReplayDoc, Run: runC14})
}

func resizeAlphabet(quick bool) []O {
	a := []O{
		{K: pagedrv.OBegin},
		{K: pagedrv.OAlloc, A: 1},
		{K: pagedrv.OAlloc, A: 7},
		{K: pagedrv.OAllocAvail, A: 0},
		{K: pagedrv.OWrite, A: 0, B: pagedrv.WFull},
		{K: pagedrv.OWrite, A: -1, B: pagedrv.WPartial},
		{K: pagedrv.OFree, A: 0},
		{K: pagedrv.OFree, A: -1},
		{K: pagedrv.OFreeEveryOther, A: 0},
		{K: pagedrv.OCommit},
		{K: pagedrv.ORollback},
		{K: pagedrv.OReopen},
		{K: pagedrv.OReopenWith, A: 64},
		{K: pagedrv.OReopenWith, A: 96},
		{K: pagedrv.OReopenWith, A: 128, B: 1},
		{K: pagedrv.OReopenWith, A: 96, B: 1},
		{K: pagedrv.OReopenWith, A: 64, B: 1},
		{K: pagedrv.OReopenWith, A: 0},
	}
	if !quick {
		a = append(a, O{K: pagedrv.OFreeAll}, O{K: pagedrv.OFlushTx}, O{K: pagedrv.OAlloc, A: 40})
	}
	return a
}

// overflowResizeAlphabet: size changes on files that are full, that use the
// overflow area (meta pages behind the maximum size) or whose free pages are
// scattered; sizes relative to the smallest legal file (64 KiB).
func overflowResizeAlphabet(cfg pagedrv.Cfg) []O {
	min := 65536 / cfg.PageSize
	return []O{
		{K: pagedrv.OBegin},
		{K: pagedrv.OBegin, B: 1},
		{K: pagedrv.OBegin, A: 1, B: 1},
		{K: pagedrv.OWrite, A: 0, B: pagedrv.WFull},
		{K: pagedrv.OWrite, A: -1, B: pagedrv.WLoad},
		{K: pagedrv.OWriteAll, B: pagedrv.WFull},
		{K: pagedrv.OAlloc, A: 1},
		{K: pagedrv.OFree, A: 0},
		{K: pagedrv.OFree, A: -1},
		{K: pagedrv.OFreeEveryOther, A: 0},
		{K: pagedrv.OFreeAll},
		{K: pagedrv.OCommit},
		{K: pagedrv.ORollback},
		{K: pagedrv.OReopen},
		{K: pagedrv.OReopenWith, A: min},
		{K: pagedrv.OReopenWith, A: min + min/2},
		{K: pagedrv.OReopenWith, A: min + min/2, B: 1},
		{K: pagedrv.OReopenWith, A: 2 * min},
		{K: pagedrv.OReopenWith, A: 0},
	}
}

// hookC14 runs after every transition (in the child): the promises about the
// size limit itself.
func hookC14(e *pagedrv.Env, last O) {
	if e.F == nil {
		return
	}
	s := e.F.VerifSnapshot()
	if last.K == pagedrv.OReopenWith {
		if int(s.MaxPages) != last.A {
			e.Viol = append(e.Viol, pagedrv.Violation{Class: "resize/limit-not-applied", Msg: fmt.Sprintf("opened with max size %d pages, the file works with %d", last.A, s.MaxPages)})
		}
	}
	if last.K == pagedrv.OReopen || last.K == pagedrv.OReopenWith {
		// what a plain open reports
		if s.Stats.MaxSize != uint64(e.Cfg.MaxPages*e.Cfg.PageSize) {
			e.Viol = append(e.Viol, pagedrv.Violation{Class: "resize/reported-limit", Msg: fmt.Sprintf("FileStats.MaxSize=%d after open, the limit set last is %d", s.Stats.MaxSize, e.Cfg.MaxPages*e.Cfg.PageSize)})
		}
		if ls := e.F.VerifLockState(); ls.Shared != 0 || ls.Pending || ls.ReservedHeld {
			e.Viol = append(e.Viol, pagedrv.Violation{Class: "resize/locks-not-idle", Msg: fmt.Sprintf("lock state after open: %+v", ls)})
		}
	}
	if e.ExtentCap > 0 && e.Disk.MaxExtent > e.ExtentCap && !e.OverflowUsed {
		e.Viol = append(e.Viol, pagedrv.Violation{Class: "resize/extent-after-shrink", Msg: fmt.Sprintf("after shrinking, the file grew to %d bytes; allowed is max(previous extent, new limit) = %d", e.Disk.MaxExtent, e.ExtentCap)})
	}
}

func runC14(ctx *core.Ctx, pool *par.Pool) {
	quick := ctx.Quick()
	depth := 6
	ctx.SetBudget(110 * time.Second)
	if !quick {
		depth = 8
		ctx.SetBudget(15 * time.Minute)
	}
	var total xstate.Stats
	resizes, probes, sweeps := 0, 0, 0
	kinds := map[string]int{}
	// seed: 100 written pages on a file whose limit was raised to 128 (bounded start) resp. on the unbounded file:
	// every smaller limit tried afterwards leaves live pages beyond it
	seedBig := seed{"100-pages", []O{{K: pagedrv.OReopenWith, A: 128}, {K: pagedrv.OBegin}, {K: pagedrv.OAlloc, A: 100}, {K: pagedrv.OWriteAll}, {K: pagedrv.OSetRoot, A: 0}, {K: pagedrv.OCommit}}}
	seedBigU := seed{"100-pages", []O{{K: pagedrv.OBegin}, {K: pagedrv.OAlloc, A: 100}, {K: pagedrv.OWriteAll}, {K: pagedrv.OSetRoot, A: 0}, {K: pagedrv.OCommit}}}
	// a file grown to twice its size and filled to the last page
	seedFull2 := seed{"grown-full", []O{{K: pagedrv.OReopenWith, A: 128}, {K: pagedrv.OBegin}, {K: pagedrv.OAllocAvail, A: 0}, {K: pagedrv.OCommit}}}
	// a nearly full file whose free pages are all single pages
	seedScattered := seed{"scattered-free", []O{{K: pagedrv.OBegin}, {K: pagedrv.OAllocAvail, A: -2}, {K: pagedrv.OWriteAll}, {K: pagedrv.OCommit}, {K: pagedrv.OBegin}, {K: pagedrv.OFreeEveryOther}, {K: pagedrv.OCommit}}}
	type c14run struct {
		bfsRun
		alphabet []O
		sweep    bool // allocation sweep in every quiescent state reached through a size change
	}
	base := func(c pagedrv.Cfg, sd seed, d int) c14run {
		return c14run{bfsRun{c, sd, d}, resizeAlphabet(quick), false}
	}
	ovf := func(c pagedrv.Cfg, sd seed, d int) c14run {
		return c14run{bfsRun{c, sd, d}, overflowResizeAlphabet(c), true}
	}
	var runs []c14run
	if quick {
		runs = []c14run{
			base(pagedrv.CfgA, seedEmpty, depth), base(pagedrv.CfgA, seedBig, depth-2),
			base(pagedrv.CfgC, seedEmpty, depth-1), base(pagedrv.CfgC, seedBigU, depth-2),
			ovf(pagedrv.CfgA, seedFull, 4), ovf(pagedrv.CfgA, seedFull2, 4), ovf(pagedrv.CfgD, seedScattered, 4), ovf(pagedrv.CfgA, seedOverflow, 3),
		}
	} else {
		for _, c := range []pagedrv.Cfg{pagedrv.CfgA, pagedrv.CfgB, pagedrv.CfgC} {
			runs = append(runs, base(c, seedEmpty, depth))
			if c.MaxPages == 0 {
				runs = append(runs, base(c, seedBigU, depth-2))
			} else {
				runs = append(runs, base(c, seedBig, depth-2))
			}
		}
		for _, c := range []pagedrv.Cfg{pagedrv.CfgA, pagedrv.CfgB, pagedrv.CfgD} {
			for _, sd := range []seed{seedFull, seedFull2, seedScattered, seedOverflow, seedFrag} {
				if sd.Name == "grown-full" && c.Name == "D" {
					continue // 128 pages of 4 KiB: the sizes of the alphabet are below it
				}
				runs = append(runs, ovf(c, sd, 6))
			}
		}
	}
	for _, run := range runs {
		cfg := run.Cfg
		ctx.Share(ctx.FairShare(len(runs), 1))
		var grown, resized []*xstate.Node
		flags := []string{"c14", "memdisk"}
		if run.sweep {
			flags = append(flags, "diskfmt")
		}
		st := xstate.BFS(ctx, pool, xstate.Spec{Cfg: cfg, Seed: run.Seed.Ops, Alphabet: run.alphabet, MaxDepth: run.Depth, Flags: flags,
			OnTransition: func(from *xstate.Node, s *xstate.Succ, isNew bool, to *xstate.Node) {
				sampleHook(ctx, cfg)(from, s, isNew, to)
				if s.Op.K == pagedrv.OReopenWith && !s.Dead {
					resizes++
					kinds[fmt.Sprintf("%s->%d", cfg.Name, s.Op.A)]++
				}
			},
			OnLevel: func(d int, fresh []*xstate.Node) {
				for _, n := range fresh {
					// capacity equation in bounded, never-shrunk states reached through a resize
					if !n.Quiet {
						continue
					}
					wasResized, shrunk := false, false
					cur := cfg.MaxPages
					for i, op := range n.Path() {
						if op.K == pagedrv.OReopenWith {
							if i >= len(run.Seed.Ops) {
								wasResized = true
							}
							if cur != 0 && (op.A == 0 || op.A > cur) {
								// grow
							} else {
								shrunk = true
							}
							cur = op.A
						}
					}
					if wasResized && !shrunk && cur != 0 && !run.sweep {
						grown = append(grown, n)
					}
					if wasResized && run.sweep {
						resized = append(resized, n)
					}
				}
			}})
		total.States += st.States
		total.Transitions += st.Transitions
		ctx.Set("depth_"+run.name(), st.Depth)
		xstate.RunProbes(ctx, pool, cfg, grown, "capacity", nil, []string{"c14"}, func(n *xstate.Node, r *xstate.ProbeResult) { probes++ })
		xstate.RunProbes(ctx, pool, cfg, resized, "sweep", nil, flags, func(n *xstate.Node, r *xstate.ProbeResult) { sweeps++ })
	}
	ctx.Unshare()
	// every size change (thorough: followed by every operation) from each harvested seed state, with an allocation
	// sweep in every state reached through a size change
	hd := 1
	if !quick {
		hd = 2
	}
	hflags := []string{"c14", "memdisk", "diskfmt"}
	hst, hprobes, hseeds := harvestPass(ctx, pool, []string{"A", "B", "D", "C"}, overflowResizeAlphabet, hflags, hd, "sweep",
		func(cfg pagedrv.Cfg) func(from *xstate.Node, s *xstate.Succ, isNew bool, to *xstate.Node) {
			return func(from *xstate.Node, s *xstate.Succ, isNew bool, to *xstate.Node) {
				if s.Op.K == pagedrv.OReopenWith && !s.Dead {
					resizes++
					kinds[fmt.Sprintf("%s->%d", cfg.Name, s.Op.A)]++
				}
			}
		})
	total.States += hst.States
	total.Transitions += hst.Transitions
	sweeps += hprobes
	ctx.Set("harvested_seed_states", hseeds)
	ctx.Set("resize_transitions", resizes)
	ctx.Set("resize_kinds", kinds)
	ctx.Set("capacity_probes_after_grow", probes)
	ctx.Set("allocation_sweeps_after_resize", sweeps)
	finishBFS(ctx, total, probes+sweeps)
}
