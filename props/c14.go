package props

import (
	"fmt"
	"time"

	"verif/engine/core"
	"verif/engine/pagedrv"
	"verif/engine/par"
	"verif/engine/xstate"
)

// C14: changing the maximum size on open. ReopenWith(new max, prealloc) is an
// operation of the BFS alphabet, so every prior history of the graph is
// combined with every (old, new) pair and followed by further history.

func init() {
	xstate.Hooks["c14"] = hookC14
	register(&Check{ID: "C14", Level: "model_checking", Replay: xstate.ReplayDoc, Run: runC14})
}

func resizeAlphabet(quick bool) []O {
	a := []O{
		{K: pagedrv.OBegin},
		{K: pagedrv.OAlloc, A: 1},
		{K: pagedrv.OAlloc, A: 7},
		{K: pagedrv.OAllocAvail, A: 0},
		{K: pagedrv.OWrite, A: 0, B: pagedrv.WFull},
		{K: pagedrv.OWrite, A: -1, B: pagedrv.WPartial},
		{K: pagedrv.OFree, A: 0},
		{K: pagedrv.OFree, A: -1},
		{K: pagedrv.OFreeEveryOther, A: 0},
		{K: pagedrv.OCommit},
		{K: pagedrv.ORollback},
		{K: pagedrv.OReopen},
		{K: pagedrv.OReopenWith, A: 64},
		{K: pagedrv.OReopenWith, A: 96},
		{K: pagedrv.OReopenWith, A: 128, B: 1},
		{K: pagedrv.OReopenWith, A: 96, B: 1},
		{K: pagedrv.OReopenWith, A: 64, B: 1},
		{K: pagedrv.OReopenWith, A: 0},
	}
	if !quick {
		a = append(a, O{K: pagedrv.OFreeAll}, O{K: pagedrv.OFlushTx}, O{K: pagedrv.OAlloc, A: 40})
	}
	return a
}

// hookC14 runs after every transition (in the child): the promises about the
// size limit itself.
func hookC14(e *pagedrv.Env, last O) {
	if e.F == nil {
		return
	}
	s := e.F.VerifSnapshot()
	if last.K == pagedrv.OReopenWith {
		if int(s.MaxPages) != last.A {
			e.Viol = append(e.Viol, pagedrv.Violation{Class: "resize/limit-not-applied", Msg: fmt.Sprintf("opened with max size %d pages, the file works with %d", last.A, s.MaxPages)})
		}
	}
	if last.K == pagedrv.OReopen || last.K == pagedrv.OReopenWith {
		// what a plain open reports
		if s.Stats.MaxSize != uint64(e.Cfg.MaxPages*e.Cfg.PageSize) {
			e.Viol = append(e.Viol, pagedrv.Violation{Class: "resize/reported-limit", Msg: fmt.Sprintf("FileStats.MaxSize=%d after open, the limit set last is %d", s.Stats.MaxSize, e.Cfg.MaxPages*e.Cfg.PageSize)})
		}
		if ls := e.F.VerifLockState(); ls.Shared != 0 || ls.Pending || ls.ReservedHeld {
			e.Viol = append(e.Viol, pagedrv.Violation{Class: "resize/locks-not-idle", Msg: fmt.Sprintf("lock state after open: %+v", ls)})
		}
	}
	if e.ExtentCap > 0 && e.Disk.MaxExtent > e.ExtentCap && !e.OverflowUsed {
		e.Viol = append(e.Viol, pagedrv.Violation{Class: "resize/extent-after-shrink", Msg: fmt.Sprintf("after shrinking, the file grew to %d bytes; allowed is max(previous extent, new limit) = %d", e.Disk.MaxExtent, e.ExtentCap)})
	}
}

func runC14(ctx *core.Ctx, pool *par.Pool) {
	cfgs := []pagedrv.Cfg{pagedrv.CfgA, pagedrv.CfgC}
	depth := 7
	ctx.SetBudget(110 * time.Second)
	if !ctx.Quick() {
		cfgs = []pagedrv.Cfg{pagedrv.CfgA, pagedrv.CfgB, pagedrv.CfgC}
		depth = 8
		ctx.SetBudget(15 * time.Minute)
	}
	var total xstate.Stats
	resizes, probes := 0, 0
	kinds := map[string]int{}
	// seed: 100 written pages on a file whose limit was raised to 128 (bounded start) resp. on the unbounded file:
	// every smaller limit tried afterwards leaves live pages beyond it
	seedBig := seed{"100-pages", []O{{K: pagedrv.OReopenWith, A: 128}, {K: pagedrv.OBegin}, {K: pagedrv.OAlloc, A: 100}, {K: pagedrv.OWriteAll}, {K: pagedrv.OSetRoot, A: 0}, {K: pagedrv.OCommit}}}
	seedBigU := seed{"100-pages", []O{{K: pagedrv.OBegin}, {K: pagedrv.OAlloc, A: 100}, {K: pagedrv.OWriteAll}, {K: pagedrv.OSetRoot, A: 0}, {K: pagedrv.OCommit}}}
	var runs []bfsRun
	for _, c := range cfgs {
		runs = append(runs, bfsRun{c, seedEmpty, depth})
		if c.MaxPages == 0 {
			runs = append(runs, bfsRun{c, seedBigU, depth - 2})
		} else {
			runs = append(runs, bfsRun{c, seedBig, depth - 2})
		}
	}
	for _, run := range runs {
		cfg := run.Cfg
		ctx.Share(ctx.Budget() / time.Duration(len(runs)))
		var grown []*xstate.Node
		st := xstate.BFS(ctx, pool, xstate.Spec{Cfg: cfg, Seed: run.Seed.Ops, Alphabet: resizeAlphabet(ctx.Quick()), MaxDepth: run.Depth, Flags: []string{"c14"},
			OnTransition: func(from *xstate.Node, s *xstate.Succ, isNew bool, to *xstate.Node) {
				sampleHook(ctx, cfg)(from, s, isNew, to)
				if s.Op.K == pagedrv.OReopenWith && !s.Dead {
					resizes++
					kinds[fmt.Sprintf("%s->%d", cfg.Name, s.Op.A)]++
				}
			},
			OnLevel: func(d int, fresh []*xstate.Node) {
				for _, n := range fresh {
					// capacity equation in bounded, never-shrunk states reached through a resize
					if !n.Quiet {
						continue
					}
					resized, shrunk := false, false
					cur := cfg.MaxPages
					for _, op := range n.Path() {
						if op.K == pagedrv.OReopenWith {
							resized = true
							if cur != 0 && (op.A == 0 || op.A > cur) {
								// grow
							} else {
								shrunk = true
							}
							cur = op.A
						}
					}
					if resized && !shrunk && cur != 0 {
						grown = append(grown, n)
					}
				}
			}})
		total.States += st.States
		total.Transitions += st.Transitions
		ctx.Set("depth_"+run.name(), st.Depth)
		xstate.RunProbes(ctx, pool, cfg, grown, "capacity", nil, []string{"c14"}, func(n *xstate.Node, r *xstate.ProbeResult) { probes++ })
	}
	ctx.Unshare()
	ctx.Set("resize_transitions", resizes)
	ctx.Set("resize_kinds", kinds)
	ctx.Set("capacity_probes_after_grow", probes)
	finishBFS(ctx, total, probes)
}
