package props

import (
	"encoding/json"
	"fmt"
	"strings"
	"time"

	"verif/engine/core"
	"verif/engine/pagedrv"
	"verif/engine/par"
	"verif/engine/queuedrv"
	"verif/engine/xstate"
)

// C05 (delivery), C17 (counters), C12 (space / full / drain) share the queue
// driver: (i) shape enumeration over boundary event sizes, chunkings, flush
// and read policies; (ii) operation-level explicit-state search.

func init() {
	TaskHandlers["qexpand"] = handleQExpand
	TaskHandlers["qshapes"] = handleQShapes
	register(&Check{ID: "C05", Level: "model_checking", Replay: replayQueue, Run: func(c *core.Ctx, p *par.Pool) { runQueueCheck(c, p, "C05") }})
	register(&Check{ID: "C17", Level: "model_checking", Replay: replayQueue, Run: func(c *core.Ctx, p *par.Pool) { runQueueCheck(c, p, "C17") }})
	register(&Check{ID: "C12", Level: "model_checking", Replay: replayQueue, Run: runC12})
}

func replayQueue(raw json.RawMessage) []string {
	var hdr struct {
		Kind string `json:"kind"`
	}
	json.Unmarshal(raw, &hdr)
	switch hdr.Kind {
	case "qshape":
		return replayShape(raw)
	}
	return replayQPath(raw)
}

// ownership of violation classes
func ownsC05(class string) bool {
	return strings.HasPrefix(class, "deliver/") || strings.HasPrefix(class, "queue/") || class == "deadlock" || class == "livelock" || strings.HasPrefix(class, "panic")
}
func ownsC17(class string) bool { return strings.HasPrefix(class, "counters/") }
func ownsC12(class string) bool {
	return strings.HasPrefix(class, "space/") || strings.HasPrefix(class, "full/") || ownsC05(class)
}

// in C05/C06/C17 runs a stuck tiny file is C12's business
func notC12(owns func(string) bool) func(string) bool {
	return func(c string) bool { return owns(c) && !strings.HasPrefix(c, "full/") }
}

// Shape is one scripted producer/consumer run.
type Shape struct {
	Sizes  []int `json:"sizes"`
	Chunk  int   `json:"chunk"`
	Flush  int   `json:"flush"` // 0 never explicitly before reading, 1 after every event, 2 once at the end
	Read   int   `json:"read"`  // 0 whole event, 1 page buffer, 2 seven bytes, 3 Next only (skip)
	PerEvt bool  `json:"per_event_tx"`
}

func (s Shape) String() string {
	return fmt.Sprintf("sizes=%v chunk=%d flush=%d read=%d txPerEvent=%v", s.Sizes, s.Chunk, s.Flush, s.Read, s.PerEvt)
}

// QShapesTask runs a batch of shapes.
type QShapesTask struct {
	Type   string   `json:"type"`
	Cfg    QCfgSpec `json:"cfg"`
	Shapes []Shape  `json:"shapes"`
}

// QShapeViolation is a violation with its shape.
type QShapeViolation struct {
	pagedrv.Violation
	Shape Shape `json:"shape"`
}

// QShapesResult is the answer.
type QShapesResult struct {
	EngineError string            `json:"engine_error,omitempty"`
	Shapes      int               `json:"shapes"`
	Ops         int               `json:"ops"`
	Outcomes    map[string]int    `json:"outcomes"`
	Viol        []QShapeViolation `json:"viol,omitempty"`
}

func shapeOps(s Shape) []Q {
	var ops []Q
	for _, sz := range s.Sizes {
		ops = append(ops, Q{K: queuedrv.QWrite, A: sz, B: s.Chunk})
		if s.Flush == 1 {
			ops = append(ops, Q{K: queuedrv.QFlush})
		}
	}
	if s.Flush == 2 {
		ops = append(ops, Q{K: queuedrv.QFlush})
	}
	return ops
}

// runShape executes one shape under the scheduler and returns its violations.
func runShape(cfg queuedrv.Cfg, s Shape) (viol []pagedrv.Violation, outcome string, nops int) {
	var env *queuedrv.Env
	sv := xstate.Run(func() {
		var err error
		env, err = queuedrv.New(cfg)
		if err != nil {
			viol = append(viol, pagedrv.Violation{Class: "engine", Msg: err.Error()})
			return
		}
		apply := func(op Q) {
			if !env.Dead && env.Enabled(op) {
				nops++
				env.Apply(op)
			}
		}
		for _, op := range shapeOps(s) {
			apply(op)
		}
		drain := func() {
			// read everything that is available, with the shape's read policy
			if s.PerEvt {
				for i := 0; i < len(s.Sizes)+1 && !env.Dead; i++ {
					before := env.ReadPos
					apply(Q{K: queuedrv.QBegin})
					apply(Q{K: queuedrv.QAvail})
					apply(Q{K: queuedrv.QNext})
					readEvent(env, s.Read, apply)
					apply(Q{K: queuedrv.QDone})
					if env.ReadPos == before && !env.InEvent {
						break
					}
				}
				return
			}
			apply(Q{K: queuedrv.QBegin})
			for i := 0; i < len(s.Sizes)+1 && !env.Dead; i++ {
				before := env.ReadPos
				apply(Q{K: queuedrv.QAvail})
				apply(Q{K: queuedrv.QNext})
				readEvent(env, s.Read, apply)
				if env.ReadPos == before && !env.InEvent {
					break
				}
			}
			apply(Q{K: queuedrv.QDone})
		}
		drain()
		// whatever was only buffered becomes visible after an explicit flush
		apply(Q{K: queuedrv.QFlush})
		drain()
		if env.InEvent && !env.Dead { // skip policy leaves the last event open
			apply(Q{K: queuedrv.QBegin})
			apply(Q{K: queuedrv.QNext})
			apply(Q{K: queuedrv.QDone})
		}
		if !env.Dead && env.ReadPos != len(s.Sizes) {
			env.Viol = append(env.Viol, pagedrv.Violation{Class: "deliver/missing", Msg: fmt.Sprintf("%d of %d flushed events were delivered", env.ReadPos, len(s.Sizes))})
		}
		apply(Q{K: queuedrv.QAck})
		apply(Q{K: queuedrv.QReopen})
		// after reopening: empty, and usable
		apply(Q{K: queuedrv.QWrite, A: 10})
		apply(Q{K: queuedrv.QFlush})
		apply(Q{K: queuedrv.QReadAll})
		apply(Q{K: queuedrv.QAck})
		if !env.Dead {
			outcome = fmt.Sprintf("delivered=%d", env.ReadPos)
		}
	})
	if env != nil {
		viol = append(viol, env.Viol...)
	}
	viol = append(viol, sv...)
	return
}

func readEvent(env *queuedrv.Env, policy int, apply func(Q)) {
	for guard := 0; env.InEvent && !env.Dead && guard < 20000; guard++ {
		switch policy {
		case 0:
			apply(Q{K: queuedrv.QRead, A: 0})
		case 1:
			apply(Q{K: queuedrv.QRead, A: 1})
		case 2:
			apply(Q{K: queuedrv.QRead, A: 2})
		default:
			return // skip: the next Next moves on
		}
	}
}

func handleQShapes(raw []byte) interface{} {
	var t QShapesTask
	if err := json.Unmarshal(raw, &t); err != nil {
		return QShapesResult{EngineError: err.Error()}
	}
	cfg, err := t.Cfg.cfg()
	if err != nil {
		return QShapesResult{EngineError: err.Error()}
	}
	res := QShapesResult{Outcomes: map[string]int{}}
	seen := map[string]bool{}
	for _, s := range t.Shapes {
		viol, outcome, n := runShape(cfg, s)
		res.Shapes++
		res.Ops += n
		res.Outcomes[outcome]++
		for _, v := range viol {
			if !seen[v.Class] {
				seen[v.Class] = true
				res.Viol = append(res.Viol, QShapeViolation{Violation: v, Shape: s})
			}
		}
	}
	return res
}

// ShapeDoc is the replay document of a shape violation.
type ShapeDoc struct {
	Kind  string   `json:"kind"`
	Cfg   QCfgSpec `json:"cfg"`
	Shape Shape    `json:"shape"`
}

func replayShape(raw json.RawMessage) []string {
	var d ShapeDoc
	if err := json.Unmarshal(raw, &d); err != nil {
		return []string{"violation: bad replay document"}
	}
	cfg, err := d.Cfg.cfg()
	if err != nil {
		return []string{"violation: " + err.Error()}
	}
	fmt.Printf("queue %s shape: %s\n", d.Cfg, d.Shape)
	viol, outcome, _ := runShape(cfg, d.Shape)
	fmt.Println("  outcome:", outcome)
	var out []string
	for _, v := range viol {
		out = append(out, fmt.Sprintf("violation: class=%s %s", v.Class, v.Msg))
	}
	return out
}

// boundary event sizes for a page size: payload = pageSize-28, event header 4.
func boundarySizes(ps int, quick bool) []int {
	pay := ps - 28
	s := []int{1, 4, pay - 8, pay - 7, pay - 5, pay - 4, pay - 3, pay, pay + 4, 2*pay - 4, 2*pay - 3, 3000, 5000, 7000}
	if quick {
		s = []int{1, pay - 5, pay - 4, pay - 3, pay, 2*pay - 4, 3000, 5200}
	}
	return s
}

func genShapes(ps int, quick bool) []Shape {
	sizes := boundarySizes(ps, quick)
	var seqs [][]int
	for _, a := range sizes {
		seqs = append(seqs, []int{a})
		for _, b := range sizes {
			seqs = append(seqs, []int{a, b})
			if !quick {
				for _, c := range []int{1, ps - 28 - 4, 5000} {
					seqs = append(seqs, []int{a, b, c})
				}
			}
		}
	}
	// several events that fill a page exactly together (two halves, four quarters): the next event starts on a fresh page
	// while the full page keeps more than one event start
	h, q4 := (ps-28)/2-4, (ps-28)/4-4
	seqs = append(seqs, []int{h, h}, []int{h, h, 10}, []int{h, h, ps - 28 - 4}, []int{q4, q4, q4, q4}, []int{q4, q4, q4, q4, 3000}, []int{10, h - 14, h, 10})
	var out []Shape
	chunkModes := []int{queuedrv.ChunkOne, queuedrv.ChunkFirst, queuedrv.ChunkPage, queuedrv.ChunkTailByte}
	for _, sq := range seqs {
		for _, ch := range chunkModes {
			for fl := 0; fl < 3; fl++ {
				for rd := 0; rd < 4; rd++ {
					if quick && rd == 2 && len(sq) > 1 {
						continue // 7-byte reads: single events only in quick
					}
					out = append(out, Shape{Sizes: sq, Chunk: ch, Flush: fl, Read: rd, PerEvt: rd%2 == 1})
				}
			}
		}
	}
	return out
}

func queueAlphabet(ps int, quick bool) []Q {
	pay := ps - 28
	a := []Q{
		{K: queuedrv.QWrite, A: 10, B: queuedrv.ChunkOne},
		{K: queuedrv.QWrite, A: pay - 4, B: queuedrv.ChunkFirst},
		{K: queuedrv.QWrite, A: pay - 3, B: queuedrv.ChunkOne},
		{K: queuedrv.QWrite, A: 3000, B: queuedrv.ChunkPage},
		{K: queuedrv.QWritePart, A: 2500, B: queuedrv.ChunkPage},
		{K: queuedrv.QFlush},
		{K: queuedrv.QBegin},
		{K: queuedrv.QNext},
		{K: queuedrv.QRead, A: 0},
		{K: queuedrv.QRead, A: 3},
		{K: queuedrv.QDone},
		{K: queuedrv.QReadAll},
		{K: queuedrv.QAck, A: 0},
		{K: queuedrv.QAck, A: 1},
		{K: queuedrv.QReopen},
	}
	if !quick {
		a = append(a, Q{K: queuedrv.QWrite, A: 5200, B: queuedrv.ChunkTailByte}, Q{K: queuedrv.QAvail}, Q{K: queuedrv.QRead, A: 2})
	}
	return a
}

func runQueueCheck(ctx *core.Ctx, pool *par.Pool, id string) {
	owns := ownsC05
	if id == "C17" {
		owns = ownsC17
	}
	quick := ctx.Quick()
	cfgs := []QCfgSpec{{File: "C", Buffer: 5}, {File: "A", Buffer: 6}}
	depth := 6
	ctx.SetBudget(110 * time.Second)
	if !quick {
		cfgs = []QCfgSpec{{File: "C", Buffer: 5}, {File: "A", Buffer: 6}, {File: "E", Buffer: 5}, {File: "D", Buffer: 5}}
		depth = 8
		ctx.SetBudget(15 * time.Minute)
	}
	full := ctx.Deadline
	// (i) shapes
	shapesRun, shapeOpsRun := 0, 0
	outcomes := map[string]int{}
	for ci, c := range cfgs {
		if quick && ci > 0 {
			break
		}
		qc, _ := c.cfg()
		shapes := genShapes(qc.File.PageSize, quick)
		const batch = 40
		var tasks []QShapesTask
		for i := 0; i < len(shapes); i += batch {
			j := i + batch
			if j > len(shapes) {
				j = len(shapes)
			}
			tasks = append(tasks, QShapesTask{Type: "qshapes", Cfg: c, Shapes: shapes[i:j]})
		}
		raw := make([][]byte, len(tasks))
		for i := range tasks {
			raw[i], _ = json.Marshal(tasks[i])
		}
		ctx.Deadline = ctx.Start.Add(full.Sub(ctx.Start) / 2)
		skipped := 0
		pool.Run(raw, ctx.Deadline, 10*time.Minute, func(i int, out []byte, terr *par.TaskError) {
			if terr != nil {
				ctx.EngineError("shape batch: %s %s", terr.Msg, terr.Stderr)
				return
			}
			var r QShapesResult
			if err := json.Unmarshal(out, &r); err != nil || r.EngineError != "" {
				ctx.EngineError("shape batch: %v %s", err, r.EngineError)
				return
			}
			shapesRun += r.Shapes
			shapeOpsRun += r.Ops
			for k, v := range r.Outcomes {
				outcomes[k] += v
			}
			for _, v := range r.Viol {
				if !owns(v.Class) {
					continue
				}
				ctx.Violate(v.Class, fmt.Sprintf("queue %s shape {%s}: %s", c, v.Shape, v.Msg), ShapeDoc{Kind: "qshape", Cfg: c, Shape: v.Shape})
			}
		}, func(int) { skipped++ })
		ctx.Deadline = full
		if skipped > 0 {
			ctx.Cap("queue %s: deadline reached, %d of %d shape batches not run", c, skipped, len(tasks))
		}
		if len(shapes) > 0 {
			ctx.AddSample(map[string]interface{}{"cfg": c.String(), "shape": shapes[len(shapes)/3].String()})
		}
		ctx.Log("queue %s: %d shapes", c, len(shapes))
	}
	// (ii) operation-level search
	var total xstate.Stats
	for _, c := range cfgs {
		qc, _ := c.cfg()
		st := qBFSx(ctx, pool, c, queueAlphabet(qc.File.PageSize, quick), depth, false, true, owns, func(from *QNode, s *QSucc, isNew bool) {
			if isNew && from.Depth >= 4 {
				ctx.AddSample(map[string]interface{}{"cfg": c.String(), "history": queuedrv.PathString(append(from.Path(), s.Op)), "model": s.Desc})
			}
		})
		total.States += st.States
		total.Transitions += st.Transitions
		ctx.Set("depth_"+c.String(), st.Depth)
	}
	// (ii-b) the same search from queues whose tail page is exactly full and holds several event starts (the next
	// event starts on a fresh page; after a reopen the writer reloads the full page)
	{
		c := QCfgSpec{File: "C", Buffer: 5}
		qc, _ := c.cfg()
		pay := qc.File.PageSize - 28
		h, q4 := pay/2-4, pay/4-4
		seeds := [][]Q{
			{{K: queuedrv.QWrite, A: h}, {K: queuedrv.QWrite, A: h}, {K: queuedrv.QFlush}},
			{{K: queuedrv.QWrite, A: q4}, {K: queuedrv.QWrite, A: q4}, {K: queuedrv.QWrite, A: q4}, {K: queuedrv.QWrite, A: q4}, {K: queuedrv.QFlush}},
			{{K: queuedrv.QWrite, A: h}, {K: queuedrv.QWrite, A: h}, {K: queuedrv.QFlush}, {K: queuedrv.QReopen}, {K: queuedrv.QReadAll}, {K: queuedrv.QWrite, A: 100}, {K: queuedrv.QFlush}},
		}
		sd := depth - 2
		alpha := append(queueAlphabet(qc.File.PageSize, true), Q{K: queuedrv.QWrite, A: h, B: queuedrv.ChunkOne}, Q{K: queuedrv.QWrite, A: 100, B: queuedrv.ChunkOne})
		st := qBFSroots(ctx, pool, c, seeds, alpha, sd, false, true, owns, nil)
		total.States += st.States
		total.Transitions += st.Transitions
		ctx.Set("depth_full-tail-page_"+c.String(), st.Depth)
	}
	// (iii) counters across failed flushes: fill-until-error histories on small bounded files
	if id == "C17" {
		fd := 4
		if !quick {
			fd = 6
		}
		for _, c := range []QCfgSpec{{File: "A", Buffer: 5}, {File: "P17", Buffer: 5}} {
			st := qBFS(ctx, pool, c, fillAlphabet(c, quick), fd, false, owns, nil)
			total.States += st.States
			total.Transitions += st.Transitions
			ctx.Set("fill_depth_"+c.String(), st.Depth)
		}
	}
	// (iv) thorough tier: every operation from each harvested queue state (qharvest.json), with the drain probe
	if !quick {
		hst, hseeds := qHarvestPass(ctx, pool, func(c QCfgSpec) []Q {
			qc, _ := c.cfg()
			return queueAlphabet(qc.File.PageSize, true)
		}, 1, false, true, owns, 1)
		total.States += hst.States
		total.Transitions += hst.Transitions
		ctx.Set("harvested_seed_states", hseeds)
	}
	ctx.Set("shapes_run", shapesRun)
	ctx.Set("shape_operations", shapeOpsRun)
	ctx.Set("shape_outcomes", outcomes)
	ctx.Set("states", total.States)
	ctx.Set("transitions", total.Transitions)
	ctx.Set("traces_validated_against_impl", total.Transitions+shapesRun)
	ctx.Set("explanation", "shapes: complete producer/consumer scripts over boundary event sizes x chunkings x flush policies x read policies; states/transitions: explicit-state search over queue operations; every step is executed on the real queue and compared with the slice-of-events model")
}

// fillAlphabet: operations for small bounded files, including fill-until-error.
func fillAlphabet(c QCfgSpec, quick bool) []Q {
	qcfg, _ := c.cfg()
	u := qcfg.File.PageSize / 1024 // sizes scale with the page size
	a := []Q{
		{K: queuedrv.QWrite, A: 900 * u, B: queuedrv.ChunkOne},
		{K: queuedrv.QWrite, A: 2900 * u, B: queuedrv.ChunkPage},
		{K: queuedrv.QWrite, A: 4900 * u, B: queuedrv.ChunkOne},
		{K: queuedrv.QFlush},
		{K: queuedrv.QFill, A: 300 * u},
		{K: queuedrv.QFillFlush, A: 625 * u},
		{K: queuedrv.QFill, A: 900 * u},
		{K: queuedrv.QFill, A: 4900 * u},
		{K: queuedrv.QFinish},
		{K: queuedrv.QReadAll},
		{K: queuedrv.QAck, A: 0},
		{K: queuedrv.QAck, A: 1},
		{K: queuedrv.QReopen},
	}
	if !quick {
		a = append(a, Q{K: queuedrv.QFill, A: 100}, Q{K: queuedrv.QFill, A: 2900 * u}, Q{K: queuedrv.QWrite, A: 100})
	}
	return a
}

// ---- C12 ----

func runC12(ctx *core.Ctx, pool *par.Pool) {
	quick := ctx.Quick()
	cfgs := []QCfgSpec{{File: "A", Buffer: 5}, {File: "P17", Buffer: 5}, {File: "P16", Buffer: 5}, {File: "P21", Buffer: 5}}
	depth := 5
	ctx.SetBudget(110 * time.Second)
	if !quick {
		cfgs = []QCfgSpec{{File: "A", Buffer: 5}, {File: "A", Buffer: 6}, {File: "B", Buffer: 5}, {File: "P16", Buffer: 5}, {File: "P17", Buffer: 5}, {File: "P21", Buffer: 5}}
		depth = 7
		ctx.SetBudget(15 * time.Minute)
	}
	var total xstate.Stats
	fills := 0
	for _, c := range cfgs {
		alphabet := fillAlphabet(c, quick)
		st := qBFS(ctx, pool, c, alphabet, depth, true, ownsC12, func(from *QNode, s *QSucc, isNew bool) {
			if s.Op.K == queuedrv.QFill {
				fills++
			}
			if isNew && from.Depth >= 3 {
				ctx.AddSample(map[string]interface{}{"cfg": c.String(), "history": queuedrv.PathString(append(from.Path(), s.Op)), "model": s.Desc})
			}
		})
		total.States += st.States
		total.Transitions += st.Transitions
		ctx.Set("depth_"+c.String(), st.Depth)
		// fill/drain cycles: every size class, 6 cycles
		var cyc []QShapesTask
		_ = cyc
	}
	// a full tiny file after a reopen: the tail page is assigned already, so a flush may have nothing to
	// allocate and still fail; with and without an unfinished event behind the flushed range (history that exposed D23)
	{
		c := QCfgSpec{File: "P17", Buffer: 5}
		seedQ := []Q{{K: queuedrv.QWrite, A: 19600}, {K: queuedrv.QFill, A: 11600}, {K: queuedrv.QReopen}}
		alpha := append(fillAlphabet(c, true), Q{K: queuedrv.QWrite, A: 100}, Q{K: queuedrv.QWritePart, A: 2500, B: queuedrv.ChunkPage}, Q{K: queuedrv.QWritePart, A: 9000, B: queuedrv.ChunkPage})
		d := 3
		if !quick {
			d = 5
		}
		st := qBFSfrom(ctx, pool, c, seedQ, alpha, d, true, false, ownsC12, nil)
		total.States += st.States
		total.Transitions += st.Transitions
		ctx.Set("depth_full-after-reopen_"+c.String(), st.Depth)
	}
	// harvested queue states (qharvest.json): every operation (thorough: every pair) from each far-away start state,
	// with the space oracle and the drain probe
	{
		hd, stride := 1, 2
		if !quick {
			hd, stride = 2, 1
		}
		hst, hseeds := qHarvestPass(ctx, pool, func(c QCfgSpec) []Q {
			qc, _ := c.cfg()
			a := queueAlphabet(qc.File.PageSize, true)
			if qc.File.MaxPages > 0 {
				a = append(a, fillAlphabet(c, true)...)
			}
			return a
		}, hd, true, true, ownsC12, stride)
		total.States += hst.States
		total.Transitions += hst.Transitions
		ctx.Set("harvested_seed_states", hseeds)
	}
	// fill-to-error / drain cycles as long scripted paths
	cycles := 0
	for _, c := range cfgs {
		qcfg, _ := c.cfg()
		for _, size := range []int{100, 300, 900, 2500, 2900, 4900, 300 * qcfg.File.PageSize / 1024, 900 * qcfg.File.PageSize / 1024} {
			var path []Q
			n := 6
			if quick {
				n = 4
			}
			for i := 0; i < n; i++ {
				fill := Q{K: queuedrv.QFill, A: size}
				if i%2 == 1 {
					fill.K = queuedrv.QFillFlush
				}
				path = append(path, fill, Q{K: queuedrv.QReadAll}, Q{K: queuedrv.QAck, A: 0}, Q{K: queuedrv.QFinish}, Q{K: queuedrv.QFlush},
					Q{K: queuedrv.QWrite, A: size}, Q{K: queuedrv.QFlush}, Q{K: queuedrv.QReadAll}, Q{K: queuedrv.QAck, A: 0})
			}
			cycles++
			t := QCycleTask{Type: "qcycle", Cfg: c, Path: path}
			raw, _ := json.Marshal(t)
			pool.Run([][]byte{raw}, ctx.Deadline, 10*time.Minute, func(i int, out []byte, terr *par.TaskError) {
				if terr != nil {
					ctx.EngineError("cycle task: %s %s", terr.Msg, terr.Stderr)
					return
				}
				var r QCycleResult
				if err := json.Unmarshal(out, &r); err != nil || r.EngineError != "" {
					ctx.EngineError("cycle task: %v %s", err, r.EngineError)
					return
				}
				ctx.AddSample(map[string]interface{}{"cfg": c.String(), "event_size": size, "events_accepted_per_cycle": r.PerCycle, "max_extent": r.MaxExtent})
				for _, v := range r.Viol {
					if ownsC12(v.Class) {
						ctx.Violate(v.Class, fmt.Sprintf("queue %s fill/drain cycles with %d byte events: %s", c, size, v.Msg), QPathDoc{Kind: "qpath", Cfg: c, Path: path, Space: true})
					}
				}
			}, nil)
		}
	}
	// region-size sweep: n one-page events are flushed, read and ACKed so that
	// the freed pages form one free region of about n pages, then the file is
	// reopened; every n up to well past the 255-page boundary of the on-disk
	// free-list encoding. The space oracle runs after every operation, so pages
	// that are lost (or invented) by a close/open are seen right away.
	sweepCfg := QCfgSpec{File: "E", Buffer: 5}
	lo, hi := 230, 290
	if !quick {
		lo, hi = 1, 600
	}
	sweeps := 0
	var sweepTasks [][]byte
	var sweepPaths [][]Q
	for n := lo; n <= hi; n++ {
		var path []Q
		for i := 0; i < n; i++ {
			path = append(path, Q{K: queuedrv.QWrite, A: 900})
		}
		path = append(path, Q{K: queuedrv.QFlush}, Q{K: queuedrv.QReadAll}, Q{K: queuedrv.QAck, A: 0}, Q{K: queuedrv.QReopen},
			Q{K: queuedrv.QWrite, A: 900}, Q{K: queuedrv.QFlush}, Q{K: queuedrv.QReadAll}, Q{K: queuedrv.QAck, A: 0}, Q{K: queuedrv.QReopen},
			Q{K: queuedrv.QFill, A: 900}, Q{K: queuedrv.QReadAll}, Q{K: queuedrv.QAck, A: 0})
		raw, _ := json.Marshal(QCycleTask{Type: "qcycle", Cfg: sweepCfg, Path: path})
		sweepTasks = append(sweepTasks, raw)
		sweepPaths = append(sweepPaths, path)
	}
	perFill := map[int]int{}
	pool.Run(sweepTasks, ctx.Deadline, 10*time.Minute, func(i int, out []byte, terr *par.TaskError) {
		if terr != nil {
			ctx.EngineError("sweep task: %s %s", terr.Msg, terr.Stderr)
			return
		}
		var r QCycleResult
		if err := json.Unmarshal(out, &r); err != nil || r.EngineError != "" {
			ctx.EngineError("sweep task: %v %s", err, r.EngineError)
			return
		}
		sweeps++
		if len(r.PerCycle) > 0 {
			perFill[r.PerCycle[len(r.PerCycle)-1]]++
		}
		for _, v := range r.Viol {
			if ownsC12(v.Class) {
				ctx.Violate(v.Class, fmt.Sprintf("queue %s, %d one-page events flushed, ACKed, reopened: %s", sweepCfg, lo+i, v.Msg), QPathDoc{Kind: "qpath", Cfg: sweepCfg, Path: sweepPaths[i], Space: true})
			}
		}
	}, nil)
	ctx.Set("region_size_sweep_scripts", sweeps)
	ctx.Set("region_size_sweep_range", []int{lo, hi})
	ctx.Set("region_size_sweep_fill_counts", fmt.Sprint(perFill))
	cycles += sweeps
	ctx.Set("fill_drain_cycle_scripts", cycles)
	ctx.Set("fill_operations", fills)
	ctx.Set("states", total.States)
	ctx.Set("transitions", total.Transitions)
	ctx.Set("traces_validated_against_impl", total.Transitions+cycles)
	ctx.Set("explanation", "explicit-state search over queue operations including fill-until-error on small bounded files; at every quiescent state the data pages held are compared with the bound computed from the event model; plus scripted fill/drain cycles per event size class")
}

// QCycleTask runs one long scripted path with the space oracle after every
// operation and progress checks after every drain.
type QCycleTask struct {
	Type string   `json:"type"`
	Cfg  QCfgSpec `json:"cfg"`
	Path []Q      `json:"path"`
}

// QCycleResult is the answer.
type QCycleResult struct {
	EngineError string              `json:"engine_error,omitempty"`
	PerCycle    []int               `json:"per_cycle"`
	MaxExtent   int64               `json:"max_extent"`
	Viol        []pagedrv.Violation `json:"viol,omitempty"`
}

func init() { TaskHandlers["qcycle"] = handleQCycle }

func handleQCycle(raw []byte) interface{} {
	var t QCycleTask
	if err := json.Unmarshal(raw, &t); err != nil {
		return QCycleResult{EngineError: err.Error()}
	}
	cfg, err := t.Cfg.cfg()
	if err != nil {
		return QCycleResult{EngineError: err.Error()}
	}
	var res QCycleResult
	var env *queuedrv.Env
	sv := xstate.Run(func() {
		env, err = queuedrv.New(cfg)
		if err != nil {
			return
		}
		maxSize := int64(cfg.File.MaxPages * cfg.File.PageSize)
		for _, op := range t.Path {
			if env.Dead {
				break
			}
			if !env.Enabled(op) {
				continue
			}
			before := len(env.Events)
			fullBefore := env.Full
			env.Apply(op)
			env.CheckSpace(op.String())
			switch op.K {
			case queuedrv.QFill, queuedrv.QFillFlush:
				res.PerCycle = append(res.PerCycle, len(env.Events)-before)
				if env.Full == fullBefore && len(env.Viol) == 0 {
					env.Viol = append(env.Viol, pagedrv.Violation{Class: "full/never-full", Msg: "5000 events were accepted by a bounded file without an error"})
				}
			case queuedrv.QAck:
				// after a full drain the file must be back within its maximum size
				if maxSize > 0 && env.Acked == env.FlushLo && env.Disk.Len() > maxSize {
					// one more cleanup may be needed to release the overflow area: checked after the next ACK
				}
			case queuedrv.QWrite, queuedrv.QFlush:
				// progress: with the queue drained, an event that fits an empty file must be accepted
				if env.Full > fullBefore && env.Acked >= env.FlushLo && len(env.Events)-env.FlushLo <= 1 {
					env.Viol = append(env.Viol, pagedrv.Violation{Class: "full/no-progress-after-drain", Msg: fmt.Sprintf("%v failed with 'full' although every flushed event has been ACKed", op)})
				}
			}
		}
		res.MaxExtent = env.Disk.MaxExtent
	})
	if err != nil {
		return QCycleResult{EngineError: err.Error()}
	}
	res.Viol = append(env.Viol, sv...)
	return res
}
