package props

import (
	_ "embed"
	"encoding/json"
	"fmt"
	"math/rand"
	"os"
	"path/filepath"
	"sort"
	"time"

	"verif/engine/core"
	"verif/engine/pagedrv"
	"verif/engine/par"
	"verif/engine/xstate"
)

// Harvested seeds: start states for the explicit-state searches that lie far
// from the empty file (tens of operations). They are produced once by the
// diagnostic `check.sh XHARV thorough` (random walks with fixed seeds; for every
// distinct shape of the allocator state the shortest history that reaches it
// is kept) and committed as harvest.json. A check that uses them runs its
// bounded exhaustive search, with all its oracles, from each of these states;
// the seed history is part of every reported path and is judged itself at the
// root of the search. How the list was found plays no role in what a check
// decides: the list is fixed, the search below each entry is exhaustive.

//go:embed harvest.json
var harvestJSON []byte

// HarvestSeed is one entry of harvest.json.
type HarvestSeed struct {
	Cfg     string       `json:"cfg"`
	Feature string       `json:"feature"`
	Path    []pagedrv.Op `json:"path"`
}

func harvestSeeds() []HarvestSeed {
	var l []HarvestSeed
	json.Unmarshal(harvestJSON, &l)
	return l
}

// harvestRuns returns searches of the given depth from the harvested seeds of the named configurations;
// every stride-th entry (1 = all).
func harvestRuns(cfgs map[string]bool, depth, stride, offset int) []bfsRun {
	var out []bfsRun
	for i, h := range harvestSeeds() {
		if !cfgs[h.Cfg] || stride > 1 && i%stride != offset%stride {
			continue
		}
		cfg, ok := pagedrv.CfgByName(h.Cfg)
		if !ok {
			continue
		}
		out = append(out, bfsRun{cfg, seed{fmt.Sprintf("harvest-%d", i), h.Path}, depth})
	}
	return out
}

// feature describes the shape of a quiescent state.
func feature(e *pagedrv.Env, last pagedrv.Op) string {
	s := e.F.VerifSnapshot()
	b := func(n int) string {
		switch {
		case n == 0:
			return "0"
		case n == 1:
			return "1"
		}
		return "2+"
	}
	rel := func(a, m uint64) string {
		switch {
		case m == 0:
			return "unb"
		case a < m:
			return "<"
		case a == m:
			return "="
		}
		return ">"
	}
	endFree := "no"
	if n := len(s.DataFree); n > 0 && s.DataFree[n-1].ID+uint64(s.DataFree[n-1].Count) == s.DataEnd {
		endFree = "data"
	}
	if n := len(s.MetaFree); n > 0 && s.MetaFree[n-1].ID+uint64(s.MetaFree[n-1].Count) == s.MetaEnd {
		endFree += "+meta"
	}
	_ = last
	return fmt.Sprintf("dataEnd%smax metaEnd%sdataEnd dataFree=%s metaFree=%s wal=%s walPages=%s flPages=%s endFree=%s ovf=%v",
		rel(s.DataEnd, uint64(s.MaxPages)), rel(s.MetaEnd, s.DataEnd)[0:1], b(len(s.DataFree)), b(len(s.MetaFree)), b(len(s.WALMapping)), b(len(s.WALMetaPages)),
		b(len(s.FreelistPages)), endFree, e.OverflowUsed)
}

func opNameOnly(o pagedrv.Op) string {
	s := o.String()
	for i, c := range s {
		if c == '(' {
			return s[:i]
		}
	}
	return s
}

// ---- the harvesting diagnostic ----

type HarvestTask struct {
	Type string `json:"type"`
	Cfg  string `json:"cfg"`
	Seed int64  `json:"seed"`
	Len  int    `json:"len"`
}

type HarvestResult struct {
	Found []HarvestSeed `json:"found"`
}

func init() {
	TaskHandlers["harvest"] = handleHarvest
	register(&Check{ID: "XHARV", Level: "model_checking", Replay: xstate.ReplayDoc, Run: runHarvest})
}

func handleHarvest(raw []byte) interface{} {
	var t HarvestTask
	json.Unmarshal(raw, &t)
	cfg, ok := pagedrv.CfgByName(t.Cfg)
	if !ok {
		return HarvestResult{}
	}
	rng := rand.New(rand.NewSource(t.Seed))
	alpha := randAlphabet(cfg)
	var res HarvestResult
	seen := map[string]bool{}
	xstate.Run(func() {
		env, err := pagedrv.New(cfg)
		if err != nil {
			return
		}
		var path []pagedrv.Op
		for i := 0; i < t.Len && !env.Dead && len(env.Viol) == 0; i++ {
			var en []O
			for _, op := range alpha {
				if op.M == 0 && env.Enabled(op) {
					en = append(en, op)
				}
			}
			if len(en) == 0 {
				break
			}
			op := en[rng.Intn(len(en))]
			path = append(path, op)
			env.Apply(op)
			if env.Dead || len(env.Viol) > 0 {
				break
			}
			if env.T == nil && env.F != nil {
				f := feature(env, op)
				if !seen[f] {
					seen[f] = true
					res.Found = append(res.Found, HarvestSeed{Cfg: t.Cfg, Feature: f, Path: append([]pagedrv.Op{}, path...)})
				}
			}
		}
	})
	return res
}

func runHarvest(ctx *core.Ctx, pool *par.Pool) {
	ctx.SetBudget(20 * time.Minute)
	var tasks [][]byte
	for _, cfg := range []string{"A", "B", "D", "C"} {
		for s := int64(1); s <= 4000; s++ {
			raw, _ := json.Marshal(HarvestTask{Type: "harvest", Cfg: cfg, Seed: s, Len: 12 + int(s%50)})
			tasks = append(tasks, raw)
		}
	}
	best := map[string]HarvestSeed{}
	pool.Run(tasks, ctx.Deadline, 5*time.Minute, func(i int, out []byte, terr *par.TaskError) {
		if terr != nil {
			return
		}
		var r HarvestResult
		json.Unmarshal(out, &r)
		for _, h := range r.Found {
			k := h.Cfg + "|" + h.Feature
			if old, ok := best[k]; !ok || len(h.Path) < len(old.Path) || len(h.Path) == len(old.Path) && pagedrv.PathString(h.Path) < pagedrv.PathString(old.Path) {
				best[k] = h
			}
		}
	}, nil)
	var list []HarvestSeed
	for _, h := range best {
		if len(h.Path) >= 8 { // shorter ones are within reach of the ordinary searches
			list = append(list, h)
		}
	}
	sort.Slice(list, func(i, j int) bool {
		if list[i].Cfg != list[j].Cfg {
			return list[i].Cfg < list[j].Cfg
		}
		return list[i].Feature < list[j].Feature
	})
	js, _ := json.MarshalIndent(list, "", " ")
	out := filepath.Join(os.Getenv("VERIF_ROOT"), "props", "harvest.new.json")
	if os.Getenv("VERIF_ROOT") == "" {
		out = "/verif/props/harvest.new.json"
	}
	os.WriteFile(out, js, 0o644)
	ctx.Set("states_harvested", len(list))
	ctx.Set("written_to", out)
	ctx.Log("harvested %d seed states -> %s", len(list), out)
}

// harvestPass runs one multi-root search per configuration from all harvested
// seeds with the given alphabet, flags and depth, plus an optional probe in every
// quiescent state reached. Returns statistics and the number of probes.
func harvestPass(ctx *core.Ctx, pool *par.Pool, cfgNames []string, alphabet func(cfg pagedrv.Cfg) []O, flags []string, depth int, probe string,
	onTransition func(cfg pagedrv.Cfg) func(from *xstate.Node, s *xstate.Succ, isNew bool, to *xstate.Node)) (total xstate.Stats, probes, seeds int) {
	return harvestPassStride(ctx, pool, cfgNames, alphabet, flags, depth, probe, onTransition, 1)
}

// harvestPassStride uses every stride-th seed only.
func harvestPassStride(ctx *core.Ctx, pool *par.Pool, cfgNames []string, alphabet func(cfg pagedrv.Cfg) []O, flags []string, depth int, probe string,
	onTransition func(cfg pagedrv.Cfg) func(from *xstate.Node, s *xstate.Succ, isNew bool, to *xstate.Node), stride int) (total xstate.Stats, probes, seeds int) {
	byCfg := map[string][][]O{}
	for i, h := range harvestSeeds() {
		if stride > 1 && i%stride != 0 {
			continue
		}
		byCfg[h.Cfg] = append(byCfg[h.Cfg], h.Path)
	}
	for _, name := range cfgNames {
		cfg, ok := pagedrv.CfgByName(name)
		if !ok || len(byCfg[name]) == 0 {
			continue
		}
		seeds += len(byCfg[name])
		var all []*xstate.Node
		spec := xstate.Spec{Cfg: cfg, Seeds: byCfg[name], Alphabet: alphabet(cfg), MaxDepth: depth, Flags: flags,
			OnLevel: func(d int, fresh []*xstate.Node) {
				for _, n := range fresh {
					if n.Quiet {
						all = append(all, n)
					}
				}
			}}
		if onTransition != nil {
			spec.OnTransition = onTransition(cfg)
		}
		st := xstate.BFS(ctx, pool, spec)
		total.States += st.States
		total.Transitions += st.Transitions
		if probe != "" {
			xstate.RunProbes(ctx, pool, cfg, all, probe, nil, flags, func(n *xstate.Node, r *xstate.ProbeResult) { probes++ })
		}
	}
	return
}
