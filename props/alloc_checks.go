package props

import (
	"encoding/json"
	"fmt"
	"time"

	"verif/engine/core"
	"verif/engine/pagedrv"
	"verif/engine/par"
	"verif/engine/xstate"
)

// Shared by C04 (ownership), C07 (abort leaves no trace), C10 (reopen is
// lossless), C11 (space conservation): explicit-state search over an
// allocator-centred alphabet plus per-state probes and twin comparisons.

type O = pagedrv.Op

func allocAlphabet(overflow, wide bool) []O {
	a := []O{
		{K: pagedrv.OBegin},
		{K: pagedrv.OAlloc, A: 1},
		{K: pagedrv.OAlloc, A: 2},
		{K: pagedrv.OAlloc, A: 7},
		{K: pagedrv.OAllocAvail, A: 0},
		{K: pagedrv.OAllocAvail, A: 1},
		{K: pagedrv.OWrite, A: 0, B: pagedrv.WFull},
		{K: pagedrv.OWrite, A: -1, B: pagedrv.WFull},
		{K: pagedrv.OFree, A: 0},
		{K: pagedrv.OFree, A: -1},
		{K: pagedrv.OFree, A: -2},
		{K: pagedrv.OFreeEveryOther, A: 0},
		{K: pagedrv.OAllocFreeNew, A: 3, B: 0},
		{K: pagedrv.OAllocFreeNew, A: 3, B: 1},
		{K: pagedrv.OAllocFreeNew, A: 3, B: 2},
		{K: pagedrv.OFlushTx},
		{K: pagedrv.OCommit},
		{K: pagedrv.ORollback},
		{K: pagedrv.OReopen},
	}
	if overflow {
		a = append(a, O{K: pagedrv.OBegin, B: 1})
	}
	if wide {
		a = append(a, O{K: pagedrv.OAllocAvail, A: -1}, O{K: pagedrv.OWriteAll, B: pagedrv.WFull}, O{K: pagedrv.OFreeAll},
			O{K: pagedrv.OCloseTx}, O{K: pagedrv.OCheckpoint}, O{K: pagedrv.OBegin, A: 1})
	}
	return a
}

// standard continuations for twin comparisons: short, allocation heavy.
var twinConts = [][]O{
	{{K: pagedrv.OBegin}, {K: pagedrv.OAlloc, A: 1}, {K: pagedrv.OCommit}},
	{{K: pagedrv.OBegin}, {K: pagedrv.OAlloc, A: 7}, {K: pagedrv.OWriteAll, B: pagedrv.WFull}, {K: pagedrv.OCommit}, {K: pagedrv.OReopen}},
	{{K: pagedrv.OBegin}, {K: pagedrv.OAllocAvail, A: 0}, {K: pagedrv.OAlloc, A: 1}, {K: pagedrv.ORollback}},
	{{K: pagedrv.OBegin}, {K: pagedrv.OWrite, A: 0, B: pagedrv.WFull}, {K: pagedrv.OWrite, A: -1, B: pagedrv.WPartial}, {K: pagedrv.OCommit}, {K: pagedrv.OBegin}, {K: pagedrv.OAlloc, A: 2}, {K: pagedrv.OCommit}},
	{{K: pagedrv.OBegin}, {K: pagedrv.OFreeEveryOther, A: 0}, {K: pagedrv.OCommit}, {K: pagedrv.OBegin}, {K: pagedrv.OAlloc, A: 2}, {K: pagedrv.OCommit}},
	{{K: pagedrv.OBegin}, {K: pagedrv.OFreeAll}, {K: pagedrv.OCommit}, {K: pagedrv.OReopen}, {K: pagedrv.OBegin}, {K: pagedrv.OAllocAvail, A: 0}, {K: pagedrv.ORollback}},
	{{K: pagedrv.OReopen}, {K: pagedrv.OBegin}, {K: pagedrv.OAlloc, A: 2}, {K: pagedrv.OCommit}},
}

func init() {
	// after a transaction ended (any way) or the file was opened: the state the File works with is the
	// state a fresh open of the current disk contents arrives at
	xstate.Hooks["memdisk"] = func(e *pagedrv.Env, last pagedrv.Op) {
		switch last.K {
		case pagedrv.ORollback, pagedrv.OCloseTx, pagedrv.OCommit, pagedrv.OReopen, pagedrv.OReopenWith:
			e.CheckMemVsDisk("after " + last.String())
		}
	}
	xstate.Probes["sweep"] = probeSweep
	xstate.Probes["capacity"] = probeCapacity
	register(&Check{ID: "C04", Level: "model_checking", Replay: xstate.ReplayDoc, Run: runC04})
	register(&Check{ID: "C07", Level: "model_checking", Replay: xstate.ReplayDoc, Run: runC07})
	register(&Check{ID: "C10", Level: "model_checking", Replay: xstate.ReplayDoc, Run: runC10})
	register(&Check{ID: "C11", Level: "model_checking", Replay: xstate.ReplayDoc, Run: runC11})
}

// probeSweep (C04): allocate everything that can be allocated in the current
// state (ownership oracle on every id), write all of it, commit, and verify
// that no other live page changed.
func probeSweep(e *pagedrv.Env, _ json.RawMessage, info map[string]interface{}) {
	if e.T == nil {
		e.Apply(O{K: pagedrv.OBegin})
	}
	if e.Dead {
		return
	}
	if e.Cfg.MaxPages > 0 {
		n := int(e.Avail())
		info["avail"] = n
		if n > 0 {
			e.Apply(O{K: pagedrv.OAlloc, A: n})
		}
		if !e.T.Overflow {
			e.Apply(O{K: pagedrv.OAllocAvail, A: 1}) // must fail: flagged by Apply if it succeeds
		}
	} else {
		s := e.F.VerifSnapshot()
		e.Apply(O{K: pagedrv.OAlloc, A: int(s.DataAvail) + 3})
	}
	if e.Dead {
		return
	}
	e.Apply(O{K: pagedrv.OWriteAll, B: pagedrv.WFull})
	if !e.Dead {
		e.Apply(O{K: pagedrv.OCommit})
	}
}

// probeCapacity (C11), quiescent states of bounded files only:
// allocatable + live + meta area + 2 header pages == maximum.
func probeCapacity(e *pagedrv.Env, _ json.RawMessage, info map[string]interface{}) {
	if e.T != nil || e.Cfg.MaxPages == 0 {
		return
	}
	s := e.F.VerifSnapshot()
	live := len(e.M.Pages)
	metaArea := int(s.Stats.MetaArea)
	if e.Stats != nil && e.Stats.Closes > 0 && e.Stats.Last != s.Stats {
		// compare ignoring Size (an estimate)
		a, b := e.Stats.Last, s.Stats
		a.Size, b.Size = 0, 0
		if a != b {
			e.Viol = append(e.Viol, pagedrv.Violation{Class: "stats/observer", Msg: fmt.Sprintf("Observer saw %+v, file holds %+v", a, b)})
		}
	}
	if int(s.Stats.DataAllocated) != live {
		e.Viol = append(e.Viol, pagedrv.Violation{Class: "stats/data-allocated", Msg: fmt.Sprintf("FileStats.DataAllocated=%d, live pages=%d", s.Stats.DataAllocated, live)})
	}
	if s.Stats.MetaArea != s.MetaTotal {
		e.Viol = append(e.Viol, pagedrv.Violation{Class: "stats/meta-area", Msg: fmt.Sprintf("FileStats.MetaArea=%d, allocator meta total=%d", s.Stats.MetaArea, s.MetaTotal)})
	}
	// no leaked meta pages: what is not on the meta free list holds the free list, the overwrite mapping or an overwrite copy
	metaUsed := 0
	for _, r := range s.FreelistPages {
		metaUsed += int(r.Count)
	}
	for _, r := range s.WALMetaPages {
		metaUsed += int(r.Count)
	}
	metaUsed += len(s.WALMapping)
	if int(s.MetaTotal)-int(s.MetaAvail) != metaUsed {
		e.Viol = append(e.Viol, pagedrv.Violation{Class: "space/meta-leak", Msg: fmt.Sprintf("meta area of %d pages, %d free, but only %d pages hold free list, mapping or overwrite copies", s.MetaTotal, s.MetaAvail, metaUsed)})
	}
	if s.Stats.MetaAllocated != s.MetaTotal-s.MetaAvail {
		e.Viol = append(e.Viol, pagedrv.Violation{Class: "stats/meta-allocated", Msg: fmt.Sprintf("FileStats.MetaAllocated=%d, meta total-free=%d", s.Stats.MetaAllocated, s.MetaTotal-s.MetaAvail)})
	}
	if want := uint64(e.Cfg.MaxPages * e.Cfg.PageSize); s.Stats.MaxSize != want && s.Stats.MaxSize != want+uint64(e.Cfg.Extra) {
		e.Viol = append(e.Viol, pagedrv.Violation{Class: "stats/max-size", Msg: fmt.Sprintf("FileStats.MaxSize=%d, configured %d", s.Stats.MaxSize, e.Opts.MaxSize)})
	}
	if e.Disk.MaxExtent > int64(e.Cfg.MaxPages*e.Cfg.PageSize) {
		e.Viol = append(e.Viol, pagedrv.Violation{Class: "space/extent", Msg: fmt.Sprintf("file grew to %d bytes, maximum size is %d", e.Disk.MaxExtent, e.Cfg.MaxPages*e.Cfg.PageSize)})
	}
	// capacity probe: count what can really be allocated
	e.Apply(O{K: pagedrv.OBegin})
	if e.Dead {
		return
	}
	got := 0
	for {
		n := int(e.Avail())
		if n <= 0 {
			break
		}
		before := len(e.T.New)
		e.Apply(O{K: pagedrv.OAlloc, A: n})
		if len(e.T.New) == before {
			e.Viol = append(e.Viol, pagedrv.Violation{Class: "space/avail-lies", Msg: fmt.Sprintf("allocator reports %d pages available but AllocN(%d) fails", n, n)})
			break
		}
		got += len(e.T.New) - before
	}
	// one more must fail
	before := len(e.T.New)
	e.CheckAlloc = false
	e.Apply(O{K: pagedrv.OAlloc, A: 1})
	if len(e.T.New) != before {
		got++
		for { // count how far it goes (bounded)
			b := len(e.T.New)
			e.Apply(O{K: pagedrv.OAlloc, A: 1})
			if len(e.T.New) == b || got > 4*e.Cfg.MaxPages {
				break
			}
			got++
		}
	}
	info["allocatable"] = got
	info["live"] = live
	info["meta"] = metaArea
	if got+live+metaArea+2 != e.Cfg.MaxPages {
		e.Viol = append(e.Viol, pagedrv.Violation{Class: "space/conservation",
			Msg: fmt.Sprintf("allocatable %d + live %d + meta area %d + 2 headers = %d, maximum is %d pages", got, live, metaArea, got+live+metaArea+2, e.Cfg.MaxPages)})
	}
	e.Apply(O{K: pagedrv.ORollback})
	if e.Disk.MaxExtent > int64(e.Cfg.MaxPages*e.Cfg.PageSize) {
		e.Viol = append(e.Viol, pagedrv.Violation{Class: "space/extent", Msg: fmt.Sprintf("file grew to %d bytes during the probe, maximum size is %d", e.Disk.MaxExtent, e.Cfg.MaxPages*e.Cfg.PageSize)})
	}
}

// Seeds: non-initial start states (most defects do not manifest from the
// empty file within a small depth). Every seed ends without an open
// transaction; the search runs from each seed separately.
type seed struct {
	Name string
	Ops  []O
}

var (
	seedEmpty = seed{"empty", nil}
	seedTwo   = seed{"two-pages", []O{{K: pagedrv.OBegin}, {K: pagedrv.OAlloc, A: 2}, {K: pagedrv.OWriteAll}, {K: pagedrv.OSetRoot, A: 0}, {K: pagedrv.OCommit}}}
	seedWAL   = seed{"overwritten", []O{{K: pagedrv.OBegin}, {K: pagedrv.OAlloc, A: 2}, {K: pagedrv.OWriteAll}, {K: pagedrv.OCommit},
		{K: pagedrv.OBegin}, {K: pagedrv.OWriteAll}, {K: pagedrv.OCommit}}}
	// a page whose contents live in an overwrite page is freed before any checkpoint: its id is free
	// while the overwrite mapping is dropped (re-use of the id must not read through a stale mapping)
	seedWALFreed = seed{"overwritten-freed", []O{{K: pagedrv.OBegin}, {K: pagedrv.OAlloc, A: 2}, {K: pagedrv.OWriteAll}, {K: pagedrv.OCommit},
		{K: pagedrv.OBegin}, {K: pagedrv.OWriteAll}, {K: pagedrv.OCommit}, {K: pagedrv.OBegin}, {K: pagedrv.OFree, A: 0}, {K: pagedrv.OCommit}}}
	seedTail = seed{"free-tail", []O{{K: pagedrv.OBegin}, {K: pagedrv.OAlloc, A: 3}, {K: pagedrv.OWriteAll}, {K: pagedrv.OCommit},
		{K: pagedrv.OBegin}, {K: pagedrv.OFree, A: -1}, {K: pagedrv.OCommit}}}
	seedFrag = seed{"fragmented", []O{{K: pagedrv.OBegin}, {K: pagedrv.OAlloc, A: 7}, {K: pagedrv.OWriteAll}, {K: pagedrv.OCommit},
		{K: pagedrv.OBegin}, {K: pagedrv.OFreeEveryOther, A: 1}, {K: pagedrv.OWrite, A: 0}, {K: pagedrv.OCommit}}}
	seedFull = seed{"full", []O{{K: pagedrv.OBegin}, {K: pagedrv.OAlloc, A: 2}, {K: pagedrv.OWriteAll}, {K: pagedrv.OCommit},
		{K: pagedrv.OBegin}, {K: pagedrv.OAllocAvail, A: 0}, {K: pagedrv.OCommit}}}
	// full bounded file whose meta area lives partly in the overflow area (pages past the maximum size)
	seedOverflow = seed{"overflow-used", []O{{K: pagedrv.OBegin}, {K: pagedrv.OAlloc, A: 2}, {K: pagedrv.OWriteAll}, {K: pagedrv.OCommit},
		{K: pagedrv.OBegin}, {K: pagedrv.OAllocAvail, A: 0}, {K: pagedrv.OCommit},
		{K: pagedrv.OBegin, B: 1}, {K: pagedrv.OWrite, A: 0}, {K: pagedrv.OWrite, A: 1}, {K: pagedrv.OCommit}}}
	// full bounded file with overwrite pages, mapping page and free list in the overflow area, of which a later
	// commit released a part (prefix of the history that exposed D17)
	seedOverflowPartial = seed{"overflow-partly-released", []O{{K: pagedrv.OBegin, B: 1}, {K: pagedrv.OAlloc, A: 7}, {K: pagedrv.OCommit},
		{K: pagedrv.OBegin, B: 1}, {K: pagedrv.OFreeEveryOther}, {K: pagedrv.OAllocAvail, A: 0}, {K: pagedrv.OWriteAll}, {K: pagedrv.OCommit},
		{K: pagedrv.OBegin, A: 1, B: 1}, {K: pagedrv.ORollback},
		{K: pagedrv.OBegin, B: 1}, {K: pagedrv.OWrite, A: -1}, {K: pagedrv.OCommit}}}
	// inside an overflow-enabled transaction that filled the file to its last page and flushed an overwrite:
	// the overflow area has grown in the running transaction (the search starts with the transaction open)
	seedOverflowOpen = seed{"overflow-tx-open", []O{{K: pagedrv.OBegin}, {K: pagedrv.OAlloc, A: 2}, {K: pagedrv.OWriteAll}, {K: pagedrv.OCommit},
		{K: pagedrv.OBegin, B: 1}, {K: pagedrv.OAllocAvail, A: 0}, {K: pagedrv.OWrite, A: 0}, {K: pagedrv.OFlushTx}}}
	seedWide = seed{"wide-overwritten", []O{{K: pagedrv.OBegin}, {K: pagedrv.OAlloc, A: 14}, {K: pagedrv.OWriteAll}, {K: pagedrv.OCommit},
		{K: pagedrv.OBegin}, {K: pagedrv.OWriteAll}, {K: pagedrv.OCommit}}}
)

type bfsRun struct {
	Cfg   pagedrv.Cfg
	Seed  seed
	Depth int
}

func (r bfsRun) name() string { return r.Cfg.Name + "/" + r.Seed.Name }

// quickPlan is the hand-picked list of (configuration, seed) searches of the
// quick tier: every seed once, on the configuration where it matters most.
func quickPlan(depth, seedDepth int, overflow, unbounded bool) []bfsRun {
	runs := []bfsRun{
		{pagedrv.CfgA, seedEmpty, depth},
		{pagedrv.CfgA, seedTail, seedDepth},
		{pagedrv.CfgB, seedTail, seedDepth},
		{pagedrv.CfgA, seedFrag, seedDepth},
		{pagedrv.CfgA, seedWAL, seedDepth},
		{pagedrv.CfgA, seedFull, seedDepth},
	}
	if overflow {
		runs = append(runs, bfsRun{pagedrv.CfgB, seedOverflow, seedDepth})
	}
	if unbounded {
		runs = append(runs, bfsRun{pagedrv.CfgC, seedEmpty, depth}, bfsRun{pagedrv.CfgC, seedWide, seedDepth})
	} else {
		runs = append(runs, bfsRun{pagedrv.CfgB, seedEmpty, depth})
	}
	return runs
}

// plan builds the list of searches: the empty file to full depth, every other
// seed to a smaller depth, on every configuration (bounded-only seeds are
// skipped on unbounded files).
func plan(cfgs []pagedrv.Cfg, seeds []seed, depth, seedDepth int) []bfsRun {
	var out []bfsRun
	for _, c := range cfgs {
		out = append(out, bfsRun{c, seedEmpty, depth})
	}
	for _, sd := range seeds {
		for _, c := range cfgs {
			if (sd.Name == "full" || sd.Name == "overflow-used") && c.MaxPages == 0 {
				continue
			}
			out = append(out, bfsRun{c, sd, seedDepth})
		}
	}
	return out
}

func sampleHook(ctx *core.Ctx, cfg pagedrv.Cfg) func(from *xstate.Node, s *xstate.Succ, isNew bool, to *xstate.Node) {
	return func(from *xstate.Node, s *xstate.Succ, isNew bool, _ *xstate.Node) {
		if isNew && from.Depth >= 4 {
			ctx.AddSample(map[string]interface{}{"cfg": cfg.Name, "history": pagedrv.PathString(append(from.Path(), s.Op))})
		}
	}
}

func finishBFS(ctx *core.Ctx, total xstate.Stats, extra int) {
	ctx.Set("states", total.States)
	ctx.Set("transitions", total.Transitions)
	ctx.Set("traces_validated_against_impl", total.Transitions+extra)
	ctx.Set("explanation", "states and transitions are those of the real implementation (instrumented build on the simulated disk); every transition is compared with the reference model, so each is a trace validated against the implementation")
}

// ---- C04 ----

func runC04(ctx *core.Ctx, pool *par.Pool) {
	cfgs := []pagedrv.Cfg{pagedrv.CfgA, pagedrv.CfgB, pagedrv.CfgC}
	depth, seedDepth := 5, 5
	ctx.SetBudget(110 * time.Second)
	if !ctx.Quick() {
		cfgs = []pagedrv.Cfg{pagedrv.CfgA, pagedrv.CfgB, pagedrv.CfgC, pagedrv.CfgE, pagedrv.CfgF}
		depth, seedDepth = 8, 7
		ctx.SetBudget(15 * time.Minute)
	}
	var total xstate.Stats
	sweeps := 0
	runs := plan(cfgs, []seed{seedTail, seedFrag, seedWAL, seedFull}, depth, seedDepth)
	if ctx.Quick() {
		runs = quickPlan(depth, seedDepth, false, true)
	}
	nOv := 3 // overflow-body runs below
	if !ctx.Quick() {
		nOv = 19
	}
	for _, run := range runs {
		ctx.Share(ctx.FairShare(len(runs)+nOv, 1))
		cfg := run.Cfg
		var all []*xstate.Node
		st := xstate.BFS(ctx, pool, xstate.Spec{Cfg: cfg, Seed: run.Seed.Ops, Alphabet: allocAlphabet(true, !ctx.Quick()), MaxDepth: run.Depth, Flags: []string{"diskfmt"},
			OnTransition: sampleHook(ctx, cfg),
			OnLevel:      func(d int, fresh []*xstate.Node) { all = append(all, fresh...) }})
		total.States += st.States
		total.Transitions += st.Transitions
		ctx.Set("depth_"+run.name(), st.Depth)
		// allocation sweep in every state up to depth-1 (the last level is swept too if time allows)
		xstate.RunProbes(ctx, pool, cfg, all, "sweep", nil, []string{"diskfmt"}, func(n *xstate.Node, r *xstate.ProbeResult) { sweeps++ })
	}
	// transaction bodies on files that live in their overflow area: narrow alphabet, deeper
	ovRuns := []bfsRun{{pagedrv.CfgA, seedOverflowPartial, 6}, {pagedrv.CfgA, seedOverflow, 5}, {pagedrv.CfgA, seedOverflowOpen, 5}}
	if !ctx.Quick() {
		ovRuns = []bfsRun{{pagedrv.CfgA, seedOverflowPartial, 8}, {pagedrv.CfgA, seedOverflow, 8}, {pagedrv.CfgB, seedOverflowPartial, 8}, {pagedrv.CfgB, seedOverflow, 8}, {pagedrv.CfgD, seedOverflow, 7},
			{pagedrv.CfgA, seedOverflowOpen, 8}, {pagedrv.CfgD, seedOverflowOpen, 8}}
	}
	// fresh bounded files filled up to their last k pages in one transaction: the data end marker is still
	// below the limit when an overflow-enabled transaction has to grow the meta area (0 < available < needed)
	for _, k := range []int{1, 2, 3, 5} {
		sd := seed{fmt.Sprintf("first-fill-leaves-%d", k), []O{{K: pagedrv.OBegin}, {K: pagedrv.OAllocAvail, A: -k}, {K: pagedrv.OWriteAll}, {K: pagedrv.OCommit}}}
		if !ctx.Quick() { // thorough tier only: no known change needs them and the quick budget is used up

			ovRuns = append(ovRuns, bfsRun{pagedrv.CfgA, sd, 6}, bfsRun{pagedrv.CfgD, sd, 6}, bfsRun{pagedrv.CfgB, sd, 6})
		}
	}
	for _, run := range ovRuns {
		ctx.Share(ctx.FairShare(len(runs)+len(ovRuns), 1))
		var all []*xstate.Node
		st := xstate.BFS(ctx, pool, xstate.Spec{Cfg: run.Cfg, Seed: run.Seed.Ops, Alphabet: overflowBodyAlphabet(), MaxDepth: run.Depth, Flags: []string{"diskfmt"},
			OnTransition: sampleHook(ctx, run.Cfg),
			OnLevel:      func(d int, fresh []*xstate.Node) { all = append(all, fresh...) }})
		total.States += st.States
		total.Transitions += st.Transitions
		ctx.Set("depth_overflow_"+run.name(), st.Depth)
		xstate.RunProbes(ctx, pool, run.Cfg, all, "sweep", nil, []string{"diskfmt"}, func(n *xstate.Node, r *xstate.ProbeResult) { sweeps++ })
	}
	// harvested seeds: every operation of the alphabet (thorough: every pair) from each of the far-away start
	// states of harvest.json, with the on-disk decoder, the memory-vs-disk comparison and an allocation sweep
	ctx.Unshare()
	hd := 1
	if !ctx.Quick() {
		hd = 2
	}
	hst, hprobes, hseeds := harvestPass(ctx, pool, []string{"A", "B", "C", "D"}, func(pagedrv.Cfg) []O { return allocAlphabet(true, false) }, []string{"diskfmt", "memdisk"}, hd, "sweep", nil)
	total.States += hst.States
	total.Transitions += hst.Transitions
	sweeps += hprobes
	ctx.Set("harvested_seed_states", hseeds)
	ctx.Set("harvest_depth", hd)
	ctx.Set("allocation_sweeps", sweeps)
	finishBFS(ctx, total, sweeps)
}

func overflowBodyAlphabet() []O {
	return []O{
		{K: pagedrv.OBegin, B: 1},
		{K: pagedrv.OBegin},
		{K: pagedrv.OBegin, A: 1, B: 1},
		{K: pagedrv.OFreeEveryOther},
		{K: pagedrv.OFree, A: -1},
		{K: pagedrv.OWriteAll, B: pagedrv.WFull},
		{K: pagedrv.OWrite, A: 0, B: pagedrv.WFull},
		{K: pagedrv.OWrite, A: 1, B: pagedrv.WFull},
		{K: pagedrv.OAlloc, A: 1},
		{K: pagedrv.OFlushTx},
		{K: pagedrv.OCommit},
		{K: pagedrv.ORollback},
		{K: pagedrv.OReopen},
	}
}

// ---- C11 ----

func runC11(ctx *core.Ctx, pool *par.Pool) {
	cfgs := []pagedrv.Cfg{pagedrv.CfgA, pagedrv.CfgB}
	depth, seedDepth := 6, 5
	ctx.SetBudget(110 * time.Second)
	if !ctx.Quick() {
		cfgs = []pagedrv.Cfg{pagedrv.CfgA, pagedrv.CfgB, pagedrv.CfgD}
		depth, seedDepth = 9, 8
		ctx.SetBudget(15 * time.Minute)
	}
	var total xstate.Stats
	probes := 0
	outcomes := map[string]int{}
	runs := plan(cfgs, []seed{seedTail, seedFrag, seedWAL, seedFull}, depth, seedDepth)
	if ctx.Quick() {
		runs = append(quickPlan(depth, seedDepth, false, false), bfsRun{pagedrv.CfgU, seedEmpty, depth - 1}, bfsRun{pagedrv.CfgI255, seedEmpty, 3})
	} else {
		runs = append(runs, bfsRun{pagedrv.CfgU, seedEmpty, depth - 1}, bfsRun{pagedrv.CfgU, seedTail, seedDepth - 1},
			bfsRun{pagedrv.CfgI254, seedEmpty, 4}, bfsRun{pagedrv.CfgI255, seedEmpty, 4}, bfsRun{pagedrv.CfgI256, seedEmpty, 4})
	}
	for _, run := range runs {
		ctx.Share(ctx.FairShare(len(runs), 1))
		cfg := run.Cfg
		var quiet []*xstate.Node
		st := xstate.BFS(ctx, pool, xstate.Spec{Cfg: cfg, Seed: run.Seed.Ops, Alphabet: allocAlphabet(false, !ctx.Quick()), MaxDepth: run.Depth,
			OnTransition: sampleHook(ctx, cfg),
			OnLevel: func(d int, fresh []*xstate.Node) {
				for _, n := range fresh {
					if n.Quiet {
						quiet = append(quiet, n)
					}
				}
			}})
		total.States += st.States
		total.Transitions += st.Transitions
		ctx.Set("depth_"+run.name(), st.Depth)
		xstate.RunProbes(ctx, pool, cfg, quiet, "capacity", nil, nil, func(n *xstate.Node, r *xstate.ProbeResult) {
			probes++
			outcomes[fmt.Sprintf("alloc=%v live=%v meta=%v", r.Info["allocatable"], r.Info["live"], r.Info["meta"])]++
		})
	}
	ctx.Unshare()
	ctx.Set("capacity_probes", probes)
	ctx.Set("distinct_capacity_outcomes", len(outcomes))
	finishBFS(ctx, total, probes)
}

// ---- C07 ----

func runC07(ctx *core.Ctx, pool *par.Pool) {
	cfgs := []pagedrv.Cfg{pagedrv.CfgA, pagedrv.CfgB, pagedrv.CfgC}
	depth, seedDepth := 6, 5
	ctx.SetBudget(110 * time.Second)
	if !ctx.Quick() {
		cfgs = []pagedrv.Cfg{pagedrv.CfgA, pagedrv.CfgB, pagedrv.CfgC, pagedrv.CfgF}
		depth, seedDepth = 9, 8
		ctx.SetBudget(15 * time.Minute)
	}
	var total xstate.Stats
	aborts, twinsRun := 0, 0
	runs := plan(cfgs, []seed{seedTail, seedFrag, seedWAL, seedFull, seedOverflow}, depth, seedDepth)
	if ctx.Quick() {
		runs = quickPlan(depth, seedDepth, true, true)
	}
	for _, run := range runs {
		ctx.Share(ctx.FairShare(len(runs), 1))
		cfg := run.Cfg
		var twins []xstate.TwinTask
		seenPair := map[string]bool{}
		st := xstate.BFS(ctx, pool, xstate.Spec{Cfg: cfg, Seed: run.Seed.Ops, Alphabet: allocAlphabet(true, !ctx.Quick()), MaxDepth: run.Depth, Flags: []string{"memdisk"},
			OnTransition: func(from *xstate.Node, s *xstate.Succ, isNew bool, to *xstate.Node) {
				sampleHook(ctx, cfg)(from, s, isNew, to)
				aborted := s.Op.K == pagedrv.ORollback || s.Op.K == pagedrv.OCloseTx
				if !aborted || s.Dead || to == nil {
					return
				}
				aborts++
				base := from.QuietAncestor()
				if base == nil || base.Log == "" || s.Log == "" {
					return
				}
				path := append(from.Path(), s.Op)
				if base.Log != xstate.LogKey(s.Log) && (!usesOverflow(path) || base.NoStats != noStatsKey(s.Log)) {
					ctx.Violate("abort/state", fmt.Sprintf("cfg %s: after [%s] the file differs from the state before the aborted transaction began [%s] (replay prints the difference; state now: %s)",
						cfg.Name, pagedrv.PathString(path), pagedrv.PathString(base.Path()), trunc300(s.Log)),
						map[string]interface{}{"kind": "twin", "task": xstate.TwinTask{Type: "twin", Cfg: cfg.Name, PathA: base.Path(), PathB: path, Class: "abort"}})
					return
				}
				if s.Key != base.Key && !seenPair[base.Key+s.Key] {
					// same logical state, different representation: futures must still agree
					seenPair[base.Key+s.Key] = true
					tw := xstate.TwinTask{Cfg: cfg.Name, PathA: base.Path(), PathB: path, Conts: twinConts, Class: "abort"}
					if usesOverflow(path) {
						tw.Ignore = []string{"Stats"}
					}
					twins = append(twins, tw)
				}
			}})
		total.States += st.States
		total.Transitions += st.Transitions
		ctx.Set("depth_"+run.name(), st.Depth)
		twinsRun += xstate.RunTwins(ctx, pool, twins)
	}
	ctx.Unshare()
	// aborted transactions from the harvested seed states: Begin (with and without the overflow area), one operation,
	// Rollback or Close; the memory-vs-disk oracle compares the allocator with a fresh open after every abort
	abortAlphabet := func(pagedrv.Cfg) []O {
		return []O{{K: pagedrv.OBegin}, {K: pagedrv.OBegin, B: 1}, {K: pagedrv.OAlloc, A: 1}, {K: pagedrv.OAlloc, A: 7}, {K: pagedrv.OAllocAvail, A: 0},
			{K: pagedrv.OWrite, A: 0, B: pagedrv.WFull}, {K: pagedrv.OWriteAll, B: pagedrv.WFull}, {K: pagedrv.OFree, A: 0}, {K: pagedrv.OFree, A: -1},
			{K: pagedrv.OFreeEveryOther}, {K: pagedrv.OAllocFreeNew, A: 3, B: 1}, {K: pagedrv.OFlushTx}, {K: pagedrv.OCheckpoint}, {K: pagedrv.ORollback}, {K: pagedrv.OCloseTx}}
	}
	stride := 8
	if !ctx.Quick() {
		stride = 1
	}
	hst, _, hseeds := harvestPassStride(ctx, pool, []string{"A", "B", "C", "D"}, abortAlphabet, []string{"memdisk"}, 3, "",
		func(cfg pagedrv.Cfg) func(from *xstate.Node, s *xstate.Succ, isNew bool, to *xstate.Node) {
			return func(from *xstate.Node, s *xstate.Succ, isNew bool, to *xstate.Node) {
				if (s.Op.K == pagedrv.ORollback || s.Op.K == pagedrv.OCloseTx) && !s.Dead {
					aborts++
				}
			}
		}, stride)
	total.States += hst.States
	total.Transitions += hst.Transitions
	ctx.Set("harvested_seed_states", hseeds)
	ctx.Set("aborted_transactions_compared", aborts)
	ctx.Set("twin_continuations_compared", twinsRun)
	finishBFS(ctx, total, twinsRun)
}

// usesOverflow reports whether a history contains an overflow-enabled
// transaction. FileStats are only promised for files on which no transaction
// enabled the overflow area (C11); the running DataAllocated counter is known
// to subtract overflow pages (an observation outside the given properties).
func usesOverflow(path []O) bool {
	for _, op := range path {
		if op.K == pagedrv.OBegin && op.B == 1 {
			return true
		}
	}
	return false
}

// noStatsKey is the key of a logical state with FileStats masked.
func noStatsKey(log string) string {
	if log == "" {
		return ""
	}
	var l pagedrv.Logical
	json.Unmarshal([]byte(log), &l)
	l.Stats = pagedrv.Logical{}.Stats
	return xstate.LogKey(l.String())
}

func trunc300(s string) string {
	if len(s) > 300 {
		return s[:300] + "..."
	}
	return s
}

// ---- C10 ----

func runC10(ctx *core.Ctx, pool *par.Pool) {
	cfgs := []pagedrv.Cfg{pagedrv.CfgA, pagedrv.CfgB, pagedrv.CfgC}
	depth, seedDepth := 6, 5
	ctx.SetBudget(110 * time.Second)
	if !ctx.Quick() {
		cfgs = []pagedrv.Cfg{pagedrv.CfgA, pagedrv.CfgB, pagedrv.CfgC, pagedrv.CfgE}
		depth, seedDepth = 9, 8
		ctx.SetBudget(15 * time.Minute)
	}
	var total xstate.Stats
	reopens, twinsRun := 0, 0
	runs := plan(cfgs, []seed{seedTail, seedFrag, seedWAL, seedFull, seedOverflow, seedWide}, depth, seedDepth)
	if ctx.Quick() {
		runs = quickPlan(depth, seedDepth, true, true)
	}
	for _, run := range runs {
		ctx.Share(ctx.FairShare(len(runs), 0.8))
		cfg := run.Cfg
		var twins []xstate.TwinTask
		st := xstate.BFS(ctx, pool, xstate.Spec{Cfg: cfg, Seed: run.Seed.Ops, Alphabet: allocAlphabet(true, !ctx.Quick()), MaxDepth: run.Depth,
			OnTransition: func(from *xstate.Node, s *xstate.Succ, isNew bool, to *xstate.Node) {
				sampleHook(ctx, cfg)(from, s, isNew, to)
				if s.Op.K != pagedrv.OReopen || s.Dead {
					return
				}
				reopens++
				path := append(from.Path(), s.Op)
				if from.Log != "" && from.Log != xstate.LogKey(s.Log) && (!usesOverflow(path) || from.NoStats != noStatsKey(s.Log)) {
					ctx.Violate("reopen/state", fmt.Sprintf("cfg %s: close+open after [%s] changed the logical file (replay prints the difference; state now: %s)",
						cfg.Name, pagedrv.PathString(from.Path()), trunc300(s.Log)),
						map[string]interface{}{"kind": "twin", "task": xstate.TwinTask{Type: "twin", Cfg: cfg.Name, PathA: from.Path(), PathB: path, Class: "reopen"}})
					return
				}
				if s.Key != from.Key {
					tw := xstate.TwinTask{Cfg: cfg.Name, PathA: from.Path(), PathB: path, Conts: twinConts, Class: "reopen"}
					if usesOverflow(path) {
						tw.Ignore = []string{"Stats"}
					}
					twins = append(twins, tw)
				}
			}})
		total.States += st.States
		total.Transitions += st.Transitions
		ctx.Set("depth_"+run.name(), st.Depth)
		twinsRun += xstate.RunTwins(ctx, pool, twins)
	}
	ctx.Unshare()
	// wide histories: every encoding form of the persisted structures
	var wide []xstate.TwinTask
	B, C, R := O{K: pagedrv.OBegin}, O{K: pagedrv.OCommit}, O{K: pagedrv.OReopen}
	wconts := append([][]O{{B, {K: pagedrv.OAllocAvail, A: 0}, {K: pagedrv.ORollback}}, {B, {K: pagedrv.OAlloc, A: 300}, C, R}}, twinConts...)
	addWide := func(cfg pagedrv.Cfg, path []O) {
		wide = append(wide, xstate.TwinTask{Cfg: cfg.Name, PathA: path, PathB: append(append([]O{}, path...), R), Conts: wconts, Class: "reopen-wide"})
	}
	for _, n := range []int{126, 127, 254, 255, 256, 300} { // runs around the 255-page overflow form of a region entry
		addWide(pagedrv.CfgE, []O{B, {K: pagedrv.OAlloc, A: 600}, C, B, {K: pagedrv.OFreeRun, A: 100, B: n}, C})
		if !ctx.Quick() {
			addWide(pagedrv.CfgC, []O{B, {K: pagedrv.OAlloc, A: 600}, C, B, {K: pagedrv.OFreeRun, A: 7, B: n}, {K: pagedrv.OFreeRun, A: 0, B: 3}, C})
		}
	}
	// more regions than fit one free-list page (126 at 1 KiB), two and three pages
	addWide(pagedrv.CfgE, []O{B, {K: pagedrv.OAlloc, A: 600}, C, B, {K: pagedrv.OFreeEveryOther, A: 0}, C})
	addWide(pagedrv.CfgE, []O{B, {K: pagedrv.OAlloc, A: 260}, C, B, {K: pagedrv.OFreeEveryOther, A: 1}, C})
	addWide(pagedrv.CfgC, []O{B, {K: pagedrv.OAlloc, A: 800}, C, B, {K: pagedrv.OFreeEveryOther, A: 0}, C, B, {K: pagedrv.OAlloc, A: 5}, C})
	// more overwrite mappings than fit one page (72 at 1 KiB)
	addWide(pagedrv.CfgE, []O{B, {K: pagedrv.OAlloc, A: 80}, {K: pagedrv.OWriteAll}, C, B, {K: pagedrv.OWriteAll}, C})
	addWide(pagedrv.CfgC, []O{B, {K: pagedrv.OAlloc, A: 150}, {K: pagedrv.OWriteAll}, C, B, {K: pagedrv.OWriteAll, B: pagedrv.WPartial}, C, B, {K: pagedrv.OFreeEveryOther, A: 0}, C})
	// unbounded file grown past the mapped size several times
	addWide(pagedrv.CfgC, []O{B, {K: pagedrv.OAlloc, A: 70}, {K: pagedrv.OWriteAll}, C, B, {K: pagedrv.OAlloc, A: 70}, C, B, {K: pagedrv.OAlloc, A: 200}, {K: pagedrv.OWrite, A: -1}, C})
	// pre-sized meta area of exactly 256 pages (a free meta region of 255 pages from the start), and its neighbours
	for _, c := range []pagedrv.Cfg{pagedrv.CfgI254, pagedrv.CfgI255, pagedrv.CfgI256} {
		addWide(c, nil)
		addWide(c, []O{B, {K: pagedrv.OAlloc, A: 5}, {K: pagedrv.OWriteAll}, C})
	}
	// alignment sweep: k one-page free regions followed by one region of 300 pages, so that for some k the 12-byte
	// entry of the large region ends exactly at the end of a free-list page (and for others straddles it)
	klo, khi := 118, 132
	if !ctx.Quick() {
		klo, khi = 1, 360
	}
	for k := klo; k <= khi; k++ {
		addWide(pagedrv.CfgE, []O{B, {K: pagedrv.OAlloc, A: 2*k + 300}, C, B, {K: pagedrv.OFreeRun, A: 2 * k, B: 300}, {K: pagedrv.OFreeEveryOther, A: 0}, C})
	}
	twinsRun += xstate.RunTwins(ctx, pool, wide)
	ctx.Set("wide_histories", len(wide))
	ctx.Set("reopen_points_compared", reopens)
	ctx.Set("twin_continuations_compared", twinsRun)
	finishBFS(ctx, total, twinsRun)
}

// orderAlphabet: the transaction bodies in which the order of the library's
// map iterations (dirty pages flushed, overwrite mappings walked) decides
// which page gets which internal page, on nearly full files with and without
// the overflow area.
func orderAlphabet() []O {
	a := []O{
		{K: pagedrv.OBegin},
		{K: pagedrv.OBegin, B: 1},
		{K: pagedrv.OBegin, A: 1},
		{K: pagedrv.OBegin, A: 1, B: 1},
		{K: pagedrv.OAlloc, A: 2},
		{K: pagedrv.OAllocAvail, A: 0},
		{K: pagedrv.OAllocAvail, A: 1},
		{K: pagedrv.OWriteAll, B: pagedrv.WFull},
		{K: pagedrv.OWrite, A: 0, B: pagedrv.WFull},
		{K: pagedrv.OWrite, A: -1, B: pagedrv.WFull},
		{K: pagedrv.OFree, A: -1},
		{K: pagedrv.OFreeEveryOther, A: 0},
		{K: pagedrv.ORollback},
		{K: pagedrv.OReopen},
	}
	for m := 0; m < 3; m++ {
		a = append(a, O{K: pagedrv.OFlushTx, M: m}, O{K: pagedrv.OCommit, M: m}, O{K: pagedrv.OCheckpoint, M: m})
	}
	return a
}

func init() {
	register(&Check{ID: "XORD", Level: "model_checking", Replay: xstate.ReplayDoc, Run: runOrderExperiment})
}

func runOrderExperiment(ctx *core.Ctx, pool *par.Pool) {
	ctx.SetBudget(20 * time.Minute)
	runs := []bfsRun{{pagedrv.CfgA, seedFull, 6}, {pagedrv.CfgA, seedOverflow, 6}, {pagedrv.CfgB, seedOverflow, 6}, {pagedrv.CfgA, seedWAL, 6}}
	var total xstate.Stats
	for _, run := range runs {
		ctx.Share(ctx.FairShare(len(runs), 1))
		st := xstate.BFS(ctx, pool, xstate.Spec{Cfg: run.Cfg, Seed: run.Seed.Ops, Alphabet: orderAlphabet(), MaxDepth: run.Depth, Flags: []string{"diskfmt"}})
		total.States += st.States
		total.Transitions += st.Transitions
		ctx.Set("depth_"+run.name(), st.Depth)
	}
	ctx.Unshare()
	finishBFS(ctx, total, 0)
}
