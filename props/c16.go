package props

import (
	"crypto/sha256"
	"encoding/binary"
	"encoding/json"
	"fmt"
	"hash/fnv"
	"time"

	txfile "github.com/elastic/go-txfile"

	"verif/engine/core"
	"verif/engine/pagedrv"
	"verif/engine/par"
	"verif/engine/simdisk"
	"verif/engine/xstate"
)

// C16: a damaged header never wins.

func init() {
	TaskHandlers["corrupt"] = handleCorrupt
	register(&Check{ID: "C16", Level: "fault_enumeration", Replay: replayCorrupt, Run: runC16})
}

// CorruptTask: replay Path, then enumerate header corruptions of the final
// (cleanly synced) image.
type CorruptTask struct {
	Type string `json:"type"`
	Cfg  string `json:"cfg"`
	Path []O    `json:"path"`
	Both bool   `json:"both"`
	Only string `json:"only,omitempty"` // evaluate only the corruption with this label
	// Weak: the image was taken after a transaction that flushed pages and was
	// aborted. Such a transaction may have recycled pages that only the older
	// header's state uses, so falling back to the older header cannot be
	// expected to restore it: with the *newest* header damaged only "Open does
	// not panic, hang or leak the lock" is checked. With the older header
	// damaged the full oracle applies.
	Weak bool `json:"weak,omitempty"`
}

// CorruptResult is the answer.
type CorruptResult struct {
	EngineError string              `json:"engine_error,omitempty"`
	Images      int                 `json:"images"`
	Distinct    int                 `json:"distinct"`
	Outcomes    map[string]int      `json:"outcomes"`
	Viol        []pagedrv.Violation `json:"viol,omitempty"`
	Labels      []string            `json:"labels,omitempty"`
	Sample      interface{}         `json:"sample,omitempty"`
}

func headerChecksum(h []byte) uint32 {
	f := fnv.New32a()
	f.Write(h[:pagedrv.OffChecksum])
	return f.Sum32()
}

type corruption struct {
	label   string
	apply   func(img []byte) []byte
	damaged [2]bool // which slots are damaged (invalid) after it
	crafted bool    // both stay valid (txid rewrite): expect the state of the active slot
}

type fieldSpec struct {
	name     string
	off, len int
}

var headerFields = []fieldSpec{{"magic", 0, 4}, {"version", 4, 4}, {"pageSize", 8, 4}, {"maxSize", 12, 8}, {"flags", 20, 4}, {"root", 24, 8},
	{"txid", 32, 8}, {"freelist", 40, 8}, {"wal", 48, 8}, {"dataEnd", 56, 8}, {"metaEnd", 64, 8}, {"metaTotal", 72, 8}, {"checksum", 80, 4}}

func fieldOf(byteOff int) string {
	for _, f := range headerFields {
		if byteOff >= f.off && byteOff < f.off+f.len {
			return f.name
		}
	}
	return "?"
}

// oneSlotCorruptions enumerates the damage patterns of one header slot.
// prev is the previous content of that slot (for torn writes), other the
// current content of the other slot.
func oneSlotCorruptions(slot, ps int, cur, prev, other []byte) []corruption {
	base := slot * ps
	var out []corruption
	dm := [2]bool{}
	dm[slot] = true
	mk := func(label string, newHdr []byte) {
		if string(newHdr) == string(cur) {
			return
		}
		// only damage that makes the slot invalid is damage; a pattern that
		// happens to be another valid header would be a different, intact file
		if validHeader(newHdr) {
			return
		}
		nh := append([]byte(nil), newHdr...)
		out = append(out, corruption{label: label, damaged: dm, apply: func(img []byte) []byte {
			o := append([]byte(nil), img...)
			copy(o[base:], nh)
			return o
		}})
	}
	for bit := 0; bit < pagedrv.HeaderSize*8; bit++ {
		h := append([]byte(nil), cur...)
		h[bit/8] ^= 1 << uint(bit%8)
		mk(fmt.Sprintf("slot%d/bitflip/%s/byte%d.bit%d", slot, fieldOf(bit/8), bit/8, bit%8), h)
	}
	for t := 0; t <= pagedrv.HeaderSize; t++ {
		h := append(append([]byte(nil), cur[:t]...), prev[t:]...)
		mk(fmt.Sprintf("slot%d/tear-new-prefix/%s/%d", slot, fieldOf(t), t), h)
		h2 := append(append([]byte(nil), prev[:t]...), cur[t:]...)
		mk(fmt.Sprintf("slot%d/tear-old-prefix/%s/%d", slot, fieldOf(t), t), h2)
		h3 := append(append([]byte(nil), cur[:t]...), make([]byte, pagedrv.HeaderSize-t)...)
		mk(fmt.Sprintf("slot%d/tear-zero-suffix/%s/%d", slot, fieldOf(t), t), h3)
	}
	fill := func(b byte) []byte {
		h := make([]byte, pagedrv.HeaderSize)
		for i := range h {
			h[i] = b
		}
		return h
	}
	mk(fmt.Sprintf("slot%d/fill/zero", slot), fill(0))
	mk(fmt.Sprintf("slot%d/fill/ff", slot), fill(0xFF))
	mk(fmt.Sprintf("slot%d/fill/poison", slot), fill(0xDB))
	for _, f := range headerFields {
		vals := map[string][]byte{"zero": make([]byte, f.len), "one": append([]byte{1}, make([]byte, f.len-1)...), "max": nil, "other": other[f.off : f.off+f.len]}
		mx := make([]byte, f.len)
		for i := range mx {
			mx[i] = 0xFF
		}
		vals["max"] = mx
		for _, name := range []string{"zero", "one", "max", "other"} {
			h := append([]byte(nil), cur...)
			copy(h[f.off:], vals[name])
			mk(fmt.Sprintf("slot%d/field/%s/%s", slot, f.name, name), h)
		}
	}
	return out
}

func validHeader(h []byte) bool {
	return binary.LittleEndian.Uint32(h[0:]) == 0xBEA77AEB && binary.LittleEndian.Uint32(h[4:]) == 1 &&
		binary.LittleEndian.Uint32(h[pagedrv.OffChecksum:]) == headerChecksum(h)
}

// prevHeader finds the content of a slot before its most recent write.
func prevHeader(base []byte, ops []simdisk.Op, slot, ps int) []byte {
	var hist [][]byte
	if len(base) >= slot*ps+pagedrv.HeaderSize {
		hist = append(hist, append([]byte(nil), base[slot*ps:slot*ps+pagedrv.HeaderSize]...))
	}
	for _, op := range ops {
		if op.Kind == simdisk.OpWrite && op.Off == int64(slot*ps) && len(op.Data) >= pagedrv.HeaderSize {
			hist = append(hist, append([]byte(nil), op.Data[:pagedrv.HeaderSize]...))
		}
	}
	if len(hist) >= 2 {
		return hist[len(hist)-2]
	}
	return make([]byte, pagedrv.HeaderSize)
}

func handleCorrupt(raw []byte) interface{} {
	var t CorruptTask
	if err := json.Unmarshal(raw, &t); err != nil {
		return CorruptResult{EngineError: err.Error()}
	}
	cfg, ok := pagedrv.CfgByName(t.Cfg)
	if !ok {
		return CorruptResult{EngineError: "unknown cfg " + t.Cfg}
	}
	res := CorruptResult{Outcomes: map[string]int{}}
	var img []byte
	env, sv, err := xstate.Replay(cfg, t.Path, nil, []string{"iolog"}, func(e *pagedrv.Env) {
		if e.Dead || e.T != nil {
			return
		}
		e.CloseFile()
		img = e.Disk.Image()
	})
	if err != nil {
		return CorruptResult{EngineError: err.Error()}
	}
	if len(sv) > 0 || env.Dead || img == nil {
		return CorruptResult{EngineError: fmt.Sprintf("history is not replayable cleanly to a quiescent state (%v %v)", sv, env.Viol)}
	}
	ps := cfg.PageSize
	base, ops := env.Disk.Log()
	// Pages written after the newest header was written (by a transaction that was aborted later, possibly followed
	// by commits that had nothing to write) may have recycled pages of the state the older header describes: the
	// weaker oracle applies to the fallback (see CorruptTask.Weak).
	lastHdr := -1
	for i, op := range ops {
		if op.Kind == simdisk.OpWrite && op.Off/int64(ps) < 2 && len(op.Data) == pagedrv.HeaderSize {
			lastHdr = i
		}
	}
	for _, op := range ops[lastHdr+1:] {
		if op.Kind == simdisk.OpWrite && op.Off/int64(ps) >= 2 {
			t.Weak = true
		}
	}
	hdr := [2][]byte{append([]byte(nil), img[0:pagedrv.HeaderSize]...), append([]byte(nil), img[ps:ps+pagedrv.HeaderSize]...)}
	txid := [2]uint64{binary.LittleEndian.Uint64(hdr[0][pagedrv.OffTxid:]), binary.LittleEndian.Uint64(hdr[1][pagedrv.OffTxid:])}
	active := 0
	if int64(txid[1]-txid[0]) > 0 {
		active = 1
	}
	if txid[active] != env.LastTxid {
		return CorruptResult{EngineError: fmt.Sprintf("image header txid %d, model %d", txid[active], env.LastTxid)}
	}
	// state described by each slot
	stateOf := func(slot int) (pagedrv.State, bool) {
		st, ok := env.ByTxid[txid[slot]]
		if !ok && slot != active {
			// the slot written at file creation that no commit has overwritten yet: empty file
			if len(env.ByTxid) > 0 {
				return pagedrv.State{Pages: map[uint64]pagedrv.Val{}}, txid[slot]+1 == minKeyU(env.ByTxid)
			}
		}
		return st, ok
	}
	var cors []corruption
	per := [2][]corruption{}
	for slot := 0; slot < 2; slot++ {
		per[slot] = oneSlotCorruptions(slot, ps, hdr[slot], prevHeader(base, ops, slot, ps), hdr[1-slot])
		cors = append(cors, per[slot]...)
	}
	if t.Both {
		// reduced cross product for both slots damaged
		pick := func(cs []corruption) []corruption {
			var out []corruption
			want := map[string]bool{}
			for _, c := range cs {
				key := ""
				switch {
				case len(c.label) > 14 && c.label[6:13] == "bitflip":
					f := fieldOfLabel(c.label)
					if f == "magic" || f == "txid" || f == "checksum" || f == "pageSize" {
						key = "bf-" + f
					}
				case c.label[6:] == "fill/zero":
					key = "zero"
				}
				if key != "" && !want[key] {
					want[key] = true
					out = append(out, c)
				}
			}
			return out
		}
		for _, a := range pick(per[0]) {
			for _, b := range pick(per[1]) {
				a, b := a, b
				cors = append(cors, corruption{label: a.label + "+" + b.label, damaged: [2]bool{true, true},
					apply: func(img []byte) []byte { return b.apply(a.apply(img)) }})
			}
		}
		// crafted txid pairs around wrap-around, valid checksums: the active slot must stay the winner
		for _, pair := range [][2]uint64{{1, 0}, {0, ^uint64(0)}, {1 << 63, 1<<63 - 1}, {^uint64(0), ^uint64(0) - 1}, {5, 4}} {
			pair := pair
			cors = append(cors, corruption{label: fmt.Sprintf("crafted-txid/%d-%d", pair[0], pair[1]), crafted: true, apply: func(img []byte) []byte {
				o := append([]byte(nil), img...)
				for slot := 0; slot < 2; slot++ {
					v := pair[1]
					if slot == active {
						v = pair[0]
					}
					h := o[slot*ps : slot*ps+pagedrv.HeaderSize]
					binary.LittleEndian.PutUint64(h[pagedrv.OffTxid:], v)
					binary.LittleEndian.PutUint32(h[pagedrv.OffChecksum:], headerChecksum(h))
				}
				return o
			}})
		}
	}
	seen := map[[32]byte]bool{}
	violSeen := map[string]bool{}
	for _, c := range cors {
		if t.Only != "" && c.label != t.Only {
			continue
		}
		res.Images++
		bad := c.apply(img)
		h := sha256.Sum256(bad)
		if seen[h] {
			continue
		}
		seen[h] = true
		res.Distinct++
		var expect *pagedrv.State
		expectTxid := uint64(0)
		switch {
		case c.crafted:
			st := env.ByTxid[env.LastTxid]
			expect = &st
		case c.damaged[0] && c.damaged[1]:
			expect = nil
		default:
			intact := 0
			if c.damaged[0] {
				intact = 1
			}
			st, ok := stateOf(intact)
			if !ok {
				res.EngineError = fmt.Sprintf("no model state for slot %d txid %d", intact, txid[intact])
				return res
			}
			expect, expectTxid = &st, txid[intact]
		}
		viol, outcome := checkDamaged(cfg, env.Cfg, bad, expect, expectTxid, c.crafted)
		if t.Weak && (c.crafted || c.damaged[active]) {
			kept := viol[:0]
			for _, v := range viol {
				switch v.Class {
				case "open-panic", "lock-leaked", "opened-without-intact-header", "deadlock", "livelock", "panic/thread":
					kept = append(kept, v)
				}
			}
			viol = kept
			outcome = "weak:" + outcome
		}
		res.Outcomes[outcome]++
		for _, v := range viol {
			v.Class = "header/" + classOfLabel(c.label) + "/" + v.Class
			if violSeen[v.Class] {
				continue
			}
			violSeen[v.Class] = true
			if len(res.Viol) < 60 {
				v.Msg = fmt.Sprintf("corruption %s (active slot %d, txids %d/%d): %s", c.label, active, txid[0], txid[1], v.Msg)
				res.Viol = append(res.Viol, v)
				res.Labels = append(res.Labels, c.label)
			}
		}
		if res.Sample == nil && res.Distinct == 100 {
			res.Sample = map[string]interface{}{"history": pagedrv.PathString(t.Path), "corruption": c.label, "outcome": outcome}
		}
	}
	return res
}

func fieldOfLabel(l string) string {
	// slotN/kind/field/...
	parts := splitSlash(l)
	if len(parts) >= 3 {
		return parts[2]
	}
	return ""
}

// classOfLabel drops positions, keeps slot, kind and field.
func classOfLabel(l string) string {
	parts := splitSlash(l)
	if len(parts) >= 3 && (parts[1] == "bitflip" || parts[1] == "field" || len(parts[1]) > 4 && parts[1][:4] == "tear") {
		return parts[0] + "/" + parts[1] + "/" + parts[2]
	}
	if len(parts) >= 2 {
		return parts[0] + "/" + parts[1]
	}
	return l
}

func splitSlash(s string) []string {
	var out []string
	cur := ""
	for _, r := range s {
		if r == '/' {
			out = append(out, cur)
			cur = ""
		} else {
			cur += string(r)
		}
	}
	return append(out, cur)
}

// checkDamaged opens a damaged image. expect == nil: Open must fail (cleanly).
func checkDamaged(cfg0, cfg pagedrv.Cfg, img []byte, expect *pagedrv.State, expectTxid uint64, crafted bool) (viol []pagedrv.Violation, outcome string) {
	var env *pagedrv.Env
	sv := xstate.Run(func() {
		d := simdisk.FromImage("damaged-"+cfg.Name, cfg.PageSize, img)
		env = pagedrv.Adopt(cfg, d, pagedrv.State{})
		env.Observer = false
		var err error
		if pn := pagedrv.Try(func() { err = env.Open() }); pn != "" {
			env.Viol = append(env.Viol, pagedrv.Violation{Class: "open-panic", Msg: "Open panicked: " + pn})
			outcome = "panic"
			return
		}
		if d.Locked() && err != nil {
			env.Viol = append(env.Viol, pagedrv.Violation{Class: "lock-leaked", Msg: "Open failed but left the file locked"})
		}
		if expect == nil {
			if err == nil {
				env.Viol = append(env.Viol, pagedrv.Violation{Class: "opened-without-intact-header", Msg: "Open succeeded although both headers are damaged"})
				outcome = "opened"
				env.CloseFile()
				return
			}
			outcome = "open-error"
			return
		}
		if err != nil {
			env.Viol = append(env.Viol, pagedrv.Violation{Class: "open-error", Msg: fmt.Sprintf("Open failed although one header is intact: %s", pagedrv.ErrChain(err))})
			outcome = "open-error"
			return
		}
		outcome = "fallback-ok"
		s := env.F.VerifSnapshot()
		if got := s.Txid[s.MetaActive]; !crafted && got != expectTxid {
			env.Viol = append(env.Viol, pagedrv.Violation{Class: "wrong-header", Msg: fmt.Sprintf("opened with header txid %d, the intact header has txid %d", got, expectTxid)})
			outcome = "wrong-header"
		}
		env.M = pagedrv.State{Root: expect.Root, Pages: map[uint64]pagedrv.Val{}}
		for k, v := range expect.Pages {
			env.M.Pages[k] = v
		}
		if !env.VerifyAgainst(*expect, "after opening the damaged file", "state") {
			outcome = "wrong-state"
			return
		}
		if crafted {
			// cross the wrap-around with real commits
			env.LastTxid = s.Txid[s.MetaActive]
			env.ByTxid[env.LastTxid] = *expect
			for i := 0; i < 2 && !env.Dead; i++ {
				env.Apply(O{K: pagedrv.OBegin})
				env.Apply(O{K: pagedrv.OAlloc, A: 1})
				for _, id := range newIDs(env) {
					env.WritePage(id, pagedrv.WFull)
				}
				env.Apply(O{K: pagedrv.OCommit})
				env.Apply(O{K: pagedrv.OReopen})
			}
		}
		env.CloseFile()
	})
	_ = txfile.NoError
	return append(env.Viol, sv...), outcome
}

func replayCorrupt(raw json.RawMessage) []string {
	var d struct {
		Task CorruptTask `json:"task"`
	}
	if err := json.Unmarshal(raw, &d); err != nil || d.Task.Cfg == "" {
		return xstate.ReplayDoc(raw)
	}
	fmt.Printf("cfg %s history: %s\n  corruption: %s\n", d.Task.Cfg, pagedrv.PathString(d.Task.Path), d.Task.Only)
	js, _ := json.Marshal(d.Task)
	r := handleCorrupt(js).(CorruptResult)
	var out []string
	if r.EngineError != "" {
		out = append(out, "violation: engine error: "+r.EngineError)
	}
	fmt.Printf("  images: %d outcomes: %v\n", r.Images, r.Outcomes)
	for _, v := range r.Viol {
		out = append(out, fmt.Sprintf("violation: class=%s %s", v.Class, v.Msg))
	}
	return out
}

// abortedWithFlush: the transaction that n's last operation ended wrote pages before it was aborted.
func abortedWithFlush(n *xstate.Node) bool {
	for x := n.Parent; x != nil && x.Parent != nil; x = x.Parent {
		switch x.Op.K {
		case pagedrv.OBegin:
			return false
		case pagedrv.OFlushTx, pagedrv.OFlushPage, pagedrv.OCheckpoint:
			return true
		}
	}
	return false
}

func runC16(ctx *core.Ctx, pool *par.Pool) {
	cfgs := []pagedrv.Cfg{pagedrv.CfgA, pagedrv.CfgC, pagedrv.CfgG}
	depth := 5
	ctx.SetBudget(110 * time.Second)
	if !ctx.Quick() {
		cfgs = []pagedrv.Cfg{pagedrv.CfgA, pagedrv.CfgB, pagedrv.CfgC, pagedrv.CfgD, pagedrv.CfgG, pagedrv.CfgH}
		depth = 7
		ctx.SetBudget(15 * time.Minute)
	}
	var total xstate.Stats
	images, distinct, states, weakImages := 0, 0, 0, 0
	outcomes := map[string]int{}
	// the older header must stay usable: histories in which a commit releases overflow pages and truncates the file
	overflowAlphabet := []O{{K: pagedrv.OBegin}, {K: pagedrv.OBegin, B: 1}, {K: pagedrv.OFree, A: 0}, {K: pagedrv.OFree, A: -1}, {K: pagedrv.OFreeRun, A: 20, B: 12},
		{K: pagedrv.OFreeEveryOther, A: 0}, {K: pagedrv.OWrite, A: 0, B: pagedrv.WFull}, {K: pagedrv.OCommit}, {K: pagedrv.OReopen}}
	type c16run struct {
		cfg      pagedrv.Cfg
		seed     seed
		alphabet []O
		depth    int
	}
	var runs []c16run
	for _, cfg := range cfgs {
		d := depth
		if cfg.PageSize > 4096 { // every page size the header search has to find; images are large, few states suffice
			d = 4
		}
		runs = append(runs, c16run{cfg, seedEmpty, crashAlphabet(true), d})
	}
	// two generations of free-list pages: the page that held the free list of the previous commit is free now and the
	// next transaction takes it for an overwrite copy; aborted after a flush, it has destroyed what the older header needs
	seedTwoLists := seed{"two-free-lists", []O{{K: pagedrv.OBegin}, {K: pagedrv.OAlloc, A: 7}, {K: pagedrv.OWriteAll}, {K: pagedrv.OCommit},
		{K: pagedrv.OBegin}, {K: pagedrv.OFreeEveryOther}, {K: pagedrv.OCommit}, {K: pagedrv.OBegin}, {K: pagedrv.OFree, A: 0}, {K: pagedrv.OCommit}}}
	runs = append(runs, c16run{pagedrv.CfgA, seedTwoLists, append(crashAlphabet(true), O{K: pagedrv.OWriteAll, B: pagedrv.WFull}), 4})
	if ctx.Quick() {
		runs = append(runs, c16run{pagedrv.CfgB, seedOverflow, overflowAlphabet, 4})
	} else {
		runs = append(runs, c16run{pagedrv.CfgB, seedOverflow, overflowAlphabet, depth}, c16run{pagedrv.CfgA, seedOverflow, overflowAlphabet, depth})
	}
	for _, run := range runs {
		cfg := run.cfg
		var quiet, aborted []*xstate.Node
		seenLog := map[string]bool{}
		share := ctx.FairShare(len(runs), 1)
		endRun := ctx.Phase(share)
		endBFS := ctx.Phase(share * 3 / 10)
		st := xstate.BFS(ctx, pool, xstate.Spec{Cfg: cfg, Seed: run.seed.Ops, Alphabet: run.alphabet, MaxDepth: run.depth,
			OnLevel: func(d int, fresh []*xstate.Node) {
				for _, n := range fresh {
					// one image per distinct logical state reached by a commit or reopen
					if n.Quiet && (n.Op.K == pagedrv.OCommit || n.Op.K == pagedrv.OReopen) && !seenLog[n.Log] {
						seenLog[n.Log] = true
						quiet = append(quiet, n)
					}
					// an aborted transaction that flushed pages: one image per distinct disk contents
					if n.Quiet && (n.Op.K == pagedrv.ORollback || n.Op.K == pagedrv.OCloseTx) && abortedWithFlush(n) && !seenLog["abort:"+n.Key] {
						seenLog["abort:"+n.Key] = true
						aborted = append(aborted, n)
					}
				}
			}})
		endBFS()
		total.States += st.States
		total.Transitions += st.Transitions
		ctx.Set("depth_"+cfg.Name+"/"+run.seed.Name, st.Depth)
		tasks := make([]CorruptTask, 0, len(quiet)+1)
		tasks = append(tasks, CorruptTask{Type: "corrupt", Cfg: cfg.Name, Path: run.seed.Ops, Both: true})
		for i, n := range quiet {
			tasks = append(tasks, CorruptTask{Type: "corrupt", Cfg: cfg.Name, Path: n.Path(), Both: i%4 == 0})
		}
		for _, n := range aborted {
			tasks = append(tasks, CorruptTask{Type: "corrupt", Cfg: cfg.Name, Path: n.Path(), Weak: true})
			weakImages++
		}
		raw := make([][]byte, len(tasks))
		for i := range tasks {
			raw[i], _ = json.Marshal(tasks[i])
		}
		skipped := 0
		pool.Run(raw, ctx.Deadline, 15*time.Minute, func(i int, out []byte, terr *par.TaskError) {
			t := tasks[i]
			if terr != nil {
				ctx.EngineError("corrupt task [%s]: %s %s", pagedrv.PathString(t.Path), terr.Msg, terr.Stderr)
				return
			}
			var r CorruptResult
			if err := json.Unmarshal(out, &r); err != nil {
				ctx.EngineError("bad result: %v", err)
				return
			}
			if r.EngineError != "" {
				ctx.EngineError("corrupt task [%s]: %s", pagedrv.PathString(t.Path), r.EngineError)
				return
			}
			states++
			images += r.Images
			distinct += r.Distinct
			for k, v := range r.Outcomes {
				outcomes[k] += v
			}
			if r.Sample != nil {
				ctx.AddSample(r.Sample)
			}
			for k, v := range r.Viol {
				tt := t
				tt.Only = r.Labels[k]
				ctx.Violate(v.Class, fmt.Sprintf("cfg %s history [%s]: %s", cfg.Name, pagedrv.PathString(t.Path), v.Msg),
					map[string]interface{}{"kind": "corrupt", "task": tt})
			}
		}, func(int) { skipped++ })
		if skipped > 0 {
			ctx.Cap("cfg %s: deadline reached, %d of %d images not corrupted", cfg.Name, skipped, len(tasks))
		}
		endRun()
	}
	ctx.Set("states", total.States)
	ctx.Set("transitions", total.Transitions)
	ctx.Set("committed_images", states)
	ctx.Set("images_after_aborted_flush", weakImages)
	ctx.Set("evaluations", images)
	ctx.Set("distinct_nontrivial", distinct)
	ctx.Set("open_outcomes", outcomes)
	ctx.Set("rule", "for the cleanly closed image of every distinct logical state reached by a commit or reopen in the BFS: all 672 single-bit flips of each header, byte-prefix tears (new prefix+previous contents of the slot, old prefix+new suffix, new prefix+zeros) at every offset, zero/0xFF/0xDB fill, every field replaced by 0/1/max/other slot's value; for every 4th image also a reduced cross product of both headers damaged and crafted valid txid pairs around wrap-around. Patterns that leave the header valid are not damage and are skipped. distinct = distinct image bytes, all differ from the undamaged image")
}
