//go:build !race

package sched

import "unsafe"

// RaceEnabled reports whether the binary was built with -race.
const RaceEnabled = false

func raceDisable() {}
func raceEnable()  {}

// Acquire / Release report the program's own synchronisation to the race
// detector (no-ops without -race).
func Acquire(p unsafe.Pointer)      {}
func Release(p unsafe.Pointer)      {}
func ReleaseMerge(p unsafe.Pointer) {}
