//go:build race

package sched

import (
	"runtime"
	"unsafe"
)

// RaceEnabled reports whether the binary was built with -race.
const RaceEnabled = true

//go:norace
func raceDisable() { runtime.RaceDisable() }

//go:norace
func raceEnable() { runtime.RaceEnable() }

// Acquire / Release report the program's own synchronisation to the race
// detector.
//
//go:norace
func Acquire(p unsafe.Pointer) { runtime.RaceAcquire(p) }

//go:norace
func Release(p unsafe.Pointer) { runtime.RaceRelease(p) }

//go:norace
func ReleaseMerge(p unsafe.Pointer) { runtime.RaceReleaseMerge(p) }
