// Package sched is a cooperative, deterministic scheduler. Exactly one
// registered thread (goroutine) runs at a time; control is handed over at
// explicit points (every shim synchronisation operation, every simulated disk
// operation). Every decision with more than one alternative is recorded as a
// choice point, so an execution is a function of its choice list and can be
// replayed, and the space of choice lists can be enumerated.
//
// One execution at a time per process (global state): parallelism is by
// process, not by goroutine.
package sched

import (
	"fmt"
	"runtime"
	"runtime/debug"
	"strings"
	"unsafe"
)

// Point kinds.
const (
	KThread = 'T' // which enabled thread runs next
	KEnv    = 'E' // an environment answer (signal target, map order, fault...)
)

// Point is one recorded choice point.
type Point struct {
	Kind           byte
	N              int  // number of alternatives
	Chosen         int  // alternative taken
	RunningEnabled bool // KThread: alternative 0 is the thread that was running
	Label          string
	Thread         int // thread that was running when the point was hit
}

// PanicInfo records a panic that reached the root of a thread.
type PanicInfo struct {
	Thread string
	Value  string
	Stack  string
}

// Result describes one finished execution.
type Result struct {
	Points   []Point
	Choices  []int // Chosen of every point, in order
	Steps    int
	Deadlock bool
	Blocked  []string // on deadlock: thread name + what it is blocked on
	Livelock bool
	Panics   []PanicInfo
	Diverged string // non-empty: the prefix could not be replayed (engine error)
}

type thread struct {
	id      int
	name    string
	wake    chan struct{}
	daemon  bool
	done    bool
	exited  bool
	blocked bool
	spin    bool
	yield   bool        // LetOthersRun: disabled until every other thread is blocked
	on      interface{} // object blocked on
	onLabel string
	started bool
	fn      func()
}

type abortSentinel struct{}

// IsAbort reports whether a recovered panic value is the scheduler's own
// unwinding signal. Harness code that recovers panics must re-panic it.
//
//go:norace
func IsAbort(v interface{}) bool {
	_, ok := v.(abortSentinel)
	return ok
}

// Exec is one execution in progress.
type exec struct {
	threads  []*thread
	running  *thread
	prefix   []int
	res      *Result
	aborting bool
	finish   chan struct{}
	finished bool
	exitCh   chan *thread
	budget   int
	envOn    bool
	raceOn   bool
	quiet    bool // setup phase: default choices, nothing recorded
	opt      Options
}

var cur *exec

// Rng is a small xorshift generator (math/rand's source is not usable here:
// it is called from different goroutines whose hand-offs are hidden from the
// race detector on purpose).
type Rng struct{ s uint64 }

// NewRng seeds a generator.
func NewRng(seed int64) *Rng { return &Rng{s: uint64(seed)*0x9E3779B97F4A7C15 + 0x1234567} }

//go:norace
func (r *Rng) next() uint64 {
	r.s ^= r.s << 13
	r.s ^= r.s >> 7
	r.s ^= r.s << 17
	return r.s
}

// Intn returns a number in [0,n).
//
//go:norace
func (r *Rng) Intn(n int) int { return int(r.next() % uint64(n)) }

// Float64 returns a number in [0,1).
//
//go:norace
func (r *Rng) Float64() float64 { return float64(r.next()>>11) / (1 << 53) }

// Options for Run.
type Options struct {
	StepBudget int  // livelock bound on scheduling points (default 200000)
	EnvChoices bool // record environment choice points (otherwise default answers, unrecorded)
	// Random, if set, picks the choices after the prefix at random instead of
	// alternative 0 (diagnostic sampling of deep schedules; the recorded
	// choices replay deterministically). Switch is the probability of
	// leaving a runnable thread / the default environment answer.
	Random *Rng
	Switch float64
}

// Active reports whether an execution is in progress (shims fall back to
// trivial single-threaded behaviour otherwise).
//
//go:norace
func Active() bool { return cur != nil && !cur.aborting }

// Aborting reports whether the current execution is being unwound.
//
//go:norace
func Aborting() bool { return cur != nil && cur.aborting }

// Run executes body as thread 0 under the scheduler, replaying prefix and
// taking alternative 0 afterwards.
//
//go:norace
func Run(prefix []int, opt Options, body func()) *Result {
	if cur != nil {
		panic("sched: nested Run")
	}
	if opt.StepBudget == 0 {
		opt.StepBudget = 5000000
	}
	e := &exec{
		prefix: prefix,
		res:    &Result{},
		finish: make(chan struct{}, 1),
		exitCh: make(chan *thread, 64),
		budget: opt.StepBudget,
		envOn:  opt.EnvChoices,
		raceOn: RaceEnabled,
		opt:    opt,
	}
	cur = e
	main := e.newThread("main", false, body)
	e.running = main
	main.started = true
	go e.root(main)
	main.wake <- struct{}{}

	<-e.finish
	// unwind everything that is still alive, one thread at a time
	e.aborting = true
	for {
		// collect exits that already happened
		progressed := true
		for progressed {
			progressed = false
			select {
			case t := <-e.exitCh:
				t.exited = true
				progressed = true
			default:
			}
		}
		var next *thread
		for _, t := range e.threads {
			if !t.exited {
				next = t
				break
			}
		}
		if next == nil {
			break
		}
		if !next.started {
			next.exited = true
			continue
		}
		select {
		case next.wake <- struct{}{}:
		default:
		}
		t := <-e.exitCh
		t.exited = true
	}
	cur = nil
	e.res.Choices = make([]int, len(e.res.Points))
	for i, p := range e.res.Points {
		e.res.Choices[i] = p.Chosen
	}
	return e.res
}

//go:norace
func (e *exec) newThread(name string, daemon bool, fn func()) *thread {
	t := &thread{id: len(e.threads), name: name, wake: make(chan struct{}, 1), daemon: daemon, fn: fn}
	e.threads = append(e.threads, t)
	return t
}

//go:norace
func (e *exec) root(t *thread) {
	defer e.rootExit(t)
	if e.raceOn {
		raceDisable()
		<-t.wake
		raceEnable()
	} else {
		<-t.wake
	}
	if e.aborting {
		return
	}
	t.fn()
	if e.raceOn {
		ReleaseMerge(unsafe.Pointer(t))
	}
	t.done = true
	if e.aborting {
		return
	}
	e.wakeJoiners(t)
	e.next(t)
}

//go:norace
func (e *exec) rootExit(t *thread) {
	if r := recover(); r != nil && !IsAbort(r) {
		e.res.Panics = append(e.res.Panics, PanicInfo{Thread: t.name, Value: fmt.Sprint(r), Stack: trimStack(string(debug.Stack()))})
		t.done = true
		e.signalFinish()
	}
	if e.raceOn {
		raceDisable()
		e.exitCh <- t
		raceEnable()
		return
	}
	e.exitCh <- t
}

//go:norace
func trimStack(s string) string {
	lines := strings.Split(s, "\n")
	var out []string
	for _, l := range lines {
		if strings.Contains(l, "runtime/debug.Stack") || strings.Contains(l, "runtime/debug/stack.go") {
			continue
		}
		out = append(out, l)
		if len(out) > 60 {
			break
		}
	}
	return strings.Join(out, "\n")
}

//go:norace
func (e *exec) signalFinish() {
	if !e.finished {
		e.finished = true
		e.finish <- struct{}{}
	}
}

//go:norace
func (e *exec) allUserDone() bool {
	for _, t := range e.threads {
		if !t.daemon && !t.done {
			return false
		}
	}
	return true
}

// enabled returns the enabled threads in canonical order: the running thread
// first if it is enabled, then ascending ids.
//
//go:norace
func (e *exec) enabled(t *thread) ([]*thread, bool) {
	var out []*thread
	runningEnabled := t != nil && !t.done && !t.blocked && !t.spin && !t.yield
	if runningEnabled {
		out = append(out, t)
	}
	for _, o := range e.threads {
		if o == t || o.done || o.blocked || o.spin || o.yield {
			continue
		}
		out = append(out, o)
	}
	return out, runningEnabled
}

//go:norace
func (e *exec) choose(kind byte, n int, runningEnabled bool, label string) int {
	if e.quiet {
		return 0
	}
	idx := len(e.res.Points)
	c := 0
	if idx < len(e.prefix) {
		c = e.prefix[idx]
		if c < 0 || c >= n {
			e.res.Diverged = fmt.Sprintf("choice %d at point %d (%s) out of range n=%d", c, idx, label, n)
			c = 0
			e.prefix = e.prefix[:idx]
		}
	} else if e.opt.Random != nil && n > 1 {
		if kind == KThread && !runningEnabled {
			c = e.opt.Random.Intn(n)
		} else if e.opt.Random.Float64() < e.opt.Switch {
			c = 1 + e.opt.Random.Intn(n-1)
		}
	}
	tid := -1
	if e.running != nil {
		tid = e.running.id
	}
	e.res.Points = append(e.res.Points, Point{Kind: kind, N: n, Chosen: c, RunningEnabled: runningEnabled, Label: label, Thread: tid})
	return c
}

// next picks the next thread to run and transfers control. Called by the
// running thread t (which may be done or blocked). Returns when t is
// scheduled again; panics with the abort sentinel if the execution is over.
//
//go:norace
func (e *exec) next(t *thread) {
	if e.allUserDone() {
		e.signalFinish()
		e.park(t)
		return
	}
	en, runningEnabled := e.enabled(t)
	if len(en) == 0 {
		// a thread that only let the others run continues now
		for _, o := range e.threads {
			if o.yield && !o.done {
				o.yield = false
				en = append(en, o)
				break
			}
		}
	}
	if len(en) == 0 {
		// spinners only? release them once: if a spinner is the only thing
		// left, nothing can change any more.
		spinOnly := false
		for _, o := range e.threads {
			if o.spin && !o.done {
				spinOnly = true
			}
		}
		if spinOnly {
			e.res.Livelock = true
		} else {
			e.res.Deadlock = true
		}
		for _, o := range e.threads {
			if !o.done && (o.blocked || o.spin) {
				e.res.Blocked = append(e.res.Blocked, fmt.Sprintf("%s on %s", o.name, o.onLabel))
			}
		}
		e.signalFinish()
		e.park(t)
		return
	}
	var pick *thread
	if len(en) == 1 {
		pick = en[0]
	} else {
		pick = en[e.choose(KThread, len(en), runningEnabled, "")]
	}
	if pick == t {
		return
	}
	// a step by another thread releases spinners
	for _, o := range e.threads {
		if o != pick {
			o.spin = false
		}
	}
	e.running = pick
	e.handoff(pick)
	e.park(t)
}

//go:norace
func (e *exec) handoff(to *thread) {
	if e.raceOn {
		raceDisable()
		to.wake <- struct{}{}
		raceEnable()
		return
	}
	to.wake <- struct{}{}
}

// park waits until t is scheduled again.
//
//go:norace
func (e *exec) park(t *thread) {
	if t.done {
		return // thread root returns and the goroutine exits
	}
	if e.raceOn {
		raceDisable()
		<-t.wake
		raceEnable()
	} else {
		<-t.wake
	}
	if e.aborting {
		panic(abortSentinel{})
	}
}

// Step is a scheduling point: the running thread offers to be preempted.
//
//go:norace
func Step(label string) {
	e := cur
	if e == nil {
		return
	}
	if e.aborting {
		return
	}
	t := e.running
	e.res.Steps++
	if e.res.Steps > e.budget {
		e.res.Livelock = true
		e.signalFinish()
		e.park(t)
		return
	}
	en, runningEnabled := e.enabled(t)
	if len(en) <= 1 {
		return
	}
	pick := en[e.choose(KThread, len(en), runningEnabled, label)]
	if pick == t {
		return
	}
	for _, o := range e.threads {
		if o != pick {
			o.spin = false
		}
	}
	e.running = pick
	e.handoff(pick)
	e.park(t)
}

// Block disables the running thread until Unblock(obj) is called by another
// thread, then returns once it is scheduled again. While the execution is
// being unwound it panics with the abort sentinel instead of blocking.
//
//go:norace
func Block(obj interface{}, label string) {
	e := cur
	if e == nil {
		panic("sched: Block outside of an execution: " + label)
	}
	if e.aborting {
		panic(abortSentinel{})
	}
	t := e.running
	t.blocked, t.on, t.onLabel = true, obj, label
	e.next(t)
}

// Unblock enables every thread blocked on obj.
//
//go:norace
func Unblock(obj interface{}) {
	e := cur
	if e == nil {
		return
	}
	for _, t := range e.threads {
		if t.blocked && t.on == obj {
			t.blocked, t.on = false, nil
		}
	}
}

// UnblockThread enables one specific thread (by id) blocked on obj.
//
//go:norace
func UnblockThread(id int, obj interface{}) {
	e := cur
	if e == nil {
		return
	}
	t := e.threads[id]
	if t.blocked && t.on == obj {
		t.blocked, t.on = false, nil
	}
}

// Self returns the id of the running thread (0 outside of an execution).
//
//go:norace
func Self() int {
	if cur == nil || cur.running == nil {
		return 0
	}
	return cur.running.id
}

// SelfName returns the name of the running thread.
//
//go:norace
func SelfName() string {
	if cur == nil || cur.running == nil {
		return "main"
	}
	return cur.running.name
}

// Choose records an environment choice with n alternatives; alternative 0 is
// the default answer. Without an execution, or with environment choices off,
// it returns 0 and records nothing.
//
//go:norace
func Choose(n int, label string) int {
	e := cur
	if e == nil || e.aborting || !e.envOn || n <= 1 {
		return 0
	}
	return e.choose(KEnv, n, false, label)
}

// Spawn starts a new harness thread (not a daemon): the execution is not over
// before it has finished. Returns its id.
//
//go:norace
func Spawn(name string, fn func()) int {
	return spawn(name, false, fn)
}

// Go starts a library goroutine (a daemon: the execution ends without it).
//
//go:norace
func Go(name string, fn func()) int {
	return spawn(name, true, fn)
}

//go:norace
func spawn(name string, daemon bool, fn func()) int {
	e := cur
	if e == nil {
		go fn()
		return -1
	}
	if e.aborting {
		return -1
	}
	t := e.newThread(name, daemon, fn)
	// the goroutine is created by the spawner (correct happens-before edge) and parks until scheduled
	t.started = true
	go e.root(t)
	return t.id
}

type joinKey struct{ id int }

// Join blocks until thread id has finished.
//
//go:norace
func Join(id int) {
	e := cur
	if e == nil || id < 0 {
		return
	}
	Step("join")
	for !e.threads[id].done {
		Block(joinKey{id}, fmt.Sprintf("join(%s)", e.threads[id].name))
	}
	if e.raceOn {
		Acquire(unsafe.Pointer(e.threads[id]))
	}
}

//go:norace
func (e *exec) wakeJoiners(t *thread) {
	Unblock(joinKey{t.id})
}

// YieldSpin is for polling loops in harness code: the caller is disabled until
// some other thread has taken a step, so a poll loop does not unroll.
//
//go:norace
func YieldSpin(label string) {
	e := cur
	if e == nil {
		runtime.Gosched()
		return
	}
	if e.aborting {
		panic(abortSentinel{})
	}
	t := e.running
	e.res.Steps++
	if e.res.Steps > e.budget {
		e.res.Livelock = true
		e.signalFinish()
		e.park(t)
		return
	}
	t.spin, t.onLabel = true, "spin:"+label
	e.next(t)
}

// LetOthersRun disables the caller until every other thread is blocked or
// finished (used to let the library's background writer drain its queue at a
// chosen moment).
//
//go:norace
func LetOthersRun() {
	e := cur
	if e == nil {
		return
	}
	if e.aborting {
		panic(abortSentinel{})
	}
	t := e.running
	e.res.Steps++
	t.yield = true
	e.next(t)
	t.yield = false
}

// Quiet switches choice recording off (setup phases of a scenario run under
// the default schedule and contribute no choice points) or on again.
//
//go:norace
func Quiet(on bool) {
	if cur != nil {
		cur.quiet = on
	}
}

// ThreadCount returns the number of threads created so far.
//
//go:norace
func ThreadCount() int {
	if cur == nil {
		return 1
	}
	return len(cur.threads)
}

// StepCount returns the number of scheduling points passed so far.
//
//go:norace
func StepCount() int {
	if cur == nil {
		return 0
	}
	return cur.res.Steps
}

// PointCount returns the number of choice points recorded so far.
//
//go:norace
func PointCount() int {
	if cur == nil {
		return 0
	}
	return len(cur.res.Points)
}
