package explore

import (
	"fmt"
	"os"
	"regexp"
	"strings"
)

// Race-report collection for -race builds: the child is started with
// GORACE=log_path=<prefix>, the runtime appends reports to <prefix>.<pid>;
// after every execution the new text is parsed into reports, which are
// attributed to that execution and de-duplicated by their two access sites.

var (
	raceFile   string
	raceOffset int64
	raceSeen   = map[string]bool{}
	frameRe    = regexp.MustCompile(`^\s+(\S+)\(.*\)\s*$`)
)

// InitRaceLog enables race-report collection if GORACE names a log_path.
func InitRaceLog() {
	for _, kv := range strings.Fields(os.Getenv("GORACE")) {
		if strings.HasPrefix(kv, "log_path=") {
			raceFile = fmt.Sprintf("%s.%d", strings.TrimPrefix(kv, "log_path="), os.Getpid())
		}
	}
	if raceFile != "" {
		RaceCheck = collectRaces
	}
}

func collectRaces() []string {
	st, err := os.Stat(raceFile)
	if err != nil || st.Size() <= raceOffset {
		return nil
	}
	f, err := os.Open(raceFile)
	if err != nil {
		return nil
	}
	defer f.Close()
	buf := make([]byte, st.Size()-raceOffset)
	n, _ := f.ReadAt(buf, raceOffset)
	raceOffset += int64(n)
	var out []string
	for _, rep := range strings.Split(string(buf[:n]), "==================") {
		if !strings.Contains(rep, "DATA RACE") {
			continue
		}
		key := raceKey(rep)
		if raceSeen[key] {
			continue
		}
		raceSeen[key] = true
		out = append(out, key+"\x00data race between "+key+"\n"+strings.TrimSpace(rep))
	}
	return out
}

// raceKey extracts the first frame of each of the two access stacks.
func raceKey(rep string) string {
	var sites []string
	lines := strings.Split(rep, "\n")
	for i, l := range lines {
		t := strings.TrimSpace(l)
		if strings.HasPrefix(t, "Read at") || strings.HasPrefix(t, "Write at") || strings.HasPrefix(t, "Previous read at") || strings.HasPrefix(t, "Previous write at") {
			kind := strings.Fields(strings.TrimPrefix(t, "Previous "))[0]
			for j := i + 1; j < len(lines) && j < i+40; j++ {
				if m := frameRe.FindStringSubmatch(lines[j]); m != nil {
					fn := m[1]
					if strings.Contains(fn, "verif/engine/") || strings.HasPrefix(fn, "runtime.") || strings.HasPrefix(fn, "reflect.") {
						continue
					}
					sites = append(sites, strings.ToLower(kind)+":"+fn)
					break
				}
				if strings.TrimSpace(lines[j]) == "" {
					break
				}
			}
		}
	}
	if len(sites) == 0 {
		return "unparsed report"
	}
	if len(sites) == 2 && sites[0] > sites[1] {
		sites[0], sites[1] = sites[1], sites[0]
	}
	return strings.Join(sites, " and ")
}
