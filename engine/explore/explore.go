// Package explore is the stateless schedule explorer: it enumerates the
// choice lists of engine/sched executions depth-first, bounded by the number
// of preemptions (switching away from a thread that could have continued) and
// of environment deviations (non-default signal target, map order, ...).
// Executions always run to completion; only the number of deviations from
// the default schedule is bounded (iterative context bounding).
package explore

import (
	"encoding/json"
	"fmt"
	"sort"
	"strings"
	"time"

	"verif/engine/core"
	"verif/engine/pagedrv"
	"verif/engine/par"
	"verif/engine/sched"
)

// Body is a scenario: it runs as the main thread of an execution, spawns its
// threads with sched.Spawn, joins them and returns the oracle's complaints.
// It must be deterministic given the schedule.
type Body func() []pagedrv.Violation

// Scenarios builds a Body from JSON parameters; registered by the checks.
var Scenarios = map[string]func(params json.RawMessage) (Body, error){}

// Bounds of one exploration.
type Bounds struct {
	Preempt    int  `json:"preempt"`
	Dev        int  `json:"dev"`
	EnvChoices bool `json:"env"`
	MaxExecs   int  `json:"max_execs,omitempty"` // per task; 0 = unlimited
	StepBudget int  `json:"step_budget,omitempty"`
}

// Task explores the subtree below Prefix (or only lists its children).
type Task struct {
	Type     string          `json:"type"`
	Scenario string          `json:"scenario"`
	Params   json.RawMessage `json:"params"`
	Prefix   []int           `json:"prefix"`
	Bounds   Bounds          `json:"bounds"`
	Children bool            `json:"children,omitempty"` // run Prefix once, return child prefixes
	Once     bool            `json:"once,omitempty"`     // run Prefix once (replay)
	Deadline int64           `json:"deadline,omitempty"` // unix nanos; stop cleanly when passed
	// Random: diagnostic sampling instead of the exhaustive search: Runs
	// executions with random choices (seeded), Switch = probability of a
	// non-default choice at each point.
	Random struct {
		Seed   int64   `json:"seed"`
		Runs   int     `json:"runs"`
		Switch float64 `json:"switch"`
	} `json:"random,omitempty"`
}

// ExecViolation is a violation with the schedule that shows it.
type ExecViolation struct {
	pagedrv.Violation
	Choices []int `json:"choices"`
}

// Result of a Task.
type Result struct {
	EngineError string          `json:"engine_error,omitempty"`
	Execs       int             `json:"execs"`
	Points      int             `json:"points"` // choice points seen in total
	MaxPoints   int             `json:"max_points"`
	MaxThreads  int             `json:"max_threads"`
	Outcomes    map[string]int  `json:"outcomes"`
	Viol        []ExecViolation `json:"viol,omitempty"`
	Children    [][]int         `json:"children,omitempty"`
	Truncated   bool            `json:"truncated,omitempty"` // deadline or MaxExecs hit
	Nondet      int             `json:"nondet,omitempty"`
	Sample      []string        `json:"sample,omitempty"`
	Races       []string        `json:"races,omitempty"`
}

// OutcomeOf lets a scenario summarise an execution (distinct outcomes are
// counted to show that schedules really differ). Set by the body through
// SetOutcome.
var lastOutcome string

// SetOutcome records the outcome label of the running execution.
func SetOutcome(s string) { lastOutcome = s }

func cost(p sched.Point, alt int) (pre, dev int) {
	if alt == 0 {
		return 0, 0
	}
	if p.Kind == sched.KThread {
		if p.RunningEnabled {
			return 1, 0
		}
		return 0, 0
	}
	return 0, 1
}

// RaceCheck is called after every execution in a -race build to collect new
// race reports (nil otherwise).
var RaceCheck func() []string

// runOnce executes the scenario under prefix.
// randomOpt is set while Handle samples random schedules.
var randomOpt struct {
	rng *sched.Rng
	sw  float64
}

func runOnce(body Body, prefix []int, b Bounds) (*sched.Result, []pagedrv.Violation, string) {
	var viol []pagedrv.Violation
	lastOutcome = ""
	opt := sched.Options{EnvChoices: b.EnvChoices, StepBudget: b.StepBudget}
	if prefix == nil && randomOpt.rng != nil {
		opt.Random, opt.Switch = randomOpt.rng, randomOpt.sw
	}
	res := sched.Run(prefix, opt, func() {
		viol = body()
	})
	if res.Deadlock {
		viol = append(viol, pagedrv.Violation{Class: "deadlock", Msg: "deadlock: " + strings.Join(res.Blocked, "; ")})
	}
	if res.Livelock {
		viol = append(viol, pagedrv.Violation{Class: "livelock", Msg: fmt.Sprintf("no progress within %d scheduling points: %s", res.Steps, strings.Join(res.Blocked, "; "))})
	}
	for _, p := range res.Panics {
		viol = append(viol, pagedrv.Violation{Class: "panic/thread", Msg: fmt.Sprintf("panic in thread %s: %s\n%s", p.Thread, p.Value, p.Stack)})
	}
	out := lastOutcome
	if res.Deadlock {
		out += "+deadlock"
	}
	return res, viol, out
}

// childPrefixes lists the alternatives of one execution within bounds.
func childPrefixes(res *sched.Result, from int, b Bounds) [][]int {
	var out [][]int
	pre, dev := 0, 0
	for i, p := range res.Points {
		if i >= from {
			for alt := 1; alt < p.N; alt++ {
				cp, cd := cost(p, alt)
				if pre+cp > b.Preempt || dev+cd > b.Dev {
					continue
				}
				np := make([]int, i+1)
				copy(np, res.Choices[:i])
				np[i] = alt
				out = append(out, np)
			}
		}
		cp, cd := cost(p, p.Chosen)
		pre += cp
		dev += cd
	}
	return out
}

// Handle is the child side.
func Handle(raw []byte) interface{} {
	var t Task
	if err := json.Unmarshal(raw, &t); err != nil {
		return Result{EngineError: err.Error()}
	}
	mk := Scenarios[t.Scenario]
	if mk == nil {
		return Result{EngineError: "unknown scenario " + t.Scenario}
	}
	body, err := mk(t.Params)
	if err != nil {
		return Result{EngineError: err.Error()}
	}
	res := Result{Outcomes: map[string]int{}}
	seenClass := map[string]bool{}
	stack := [][]int{t.Prefix}
	first := true
	if t.Random.Runs > 0 {
		// sampling: every stack entry is "no prefix"; runOnce draws the choices
		randomOpt.rng, randomOpt.sw = sched.NewRng(t.Random.Seed), t.Random.Switch
		defer func() { randomOpt.rng = nil }()
		stack = make([][]int, t.Random.Runs)
		first = false
	}
	for len(stack) > 0 {
		if t.Deadline > 0 && time.Now().UnixNano() > t.Deadline || t.Bounds.MaxExecs > 0 && res.Execs >= t.Bounds.MaxExecs {
			res.Truncated = true
			break
		}
		prefix := stack[len(stack)-1]
		stack = stack[:len(stack)-1]
		r, viol, outcome := runOnce(body, prefix, t.Bounds)
		if r.Diverged != "" {
			return Result{EngineError: "replay of a recorded prefix diverged: " + r.Diverged}
		}
		if len(r.Choices) < len(prefix) {
			return Result{EngineError: fmt.Sprintf("execution ended after %d choice points, prefix has %d", len(r.Choices), len(prefix))}
		}
		if first {
			// determinism proof obligation: the first execution twice
			r2, _, outcome2 := runOnce(body, prefix, t.Bounds)
			if fmt.Sprint(r.Choices) != fmt.Sprint(r2.Choices) || outcome != outcome2 {
				res.Nondet++
				return Result{EngineError: fmt.Sprintf("scenario is not deterministic under a fixed schedule: %v/%s vs %v/%s", r.Choices, outcome, r2.Choices, outcome2)}
			}
			first = false
		}
		res.Execs++
		res.Points += len(r.Points)
		if len(r.Points) > res.MaxPoints {
			res.MaxPoints = len(r.Points)
		}
		res.Outcomes[outcome]++
		if RaceCheck != nil {
			for _, rc := range RaceCheck() {
				key, text := rc, rc
				if i := strings.IndexByte(rc, 0); i >= 0 {
					key, text = rc[:i], rc[i+1:]
				}
				viol = append(viol, pagedrv.Violation{Class: "race/" + strings.ReplaceAll(key, " ", "_"), Msg: text})
			}
		}
		for _, v := range viol {
			if seenClass[v.Class] {
				continue
			}
			// confirm by replaying the exact schedule (never report what does not reproduce)
			ok := true
			if !strings.HasPrefix(v.Class, "race/") {
				for k := 0; k < 2 && ok; k++ {
					_, v2, _ := runOnce(body, r.Choices, t.Bounds)
					found := false
					for _, x := range v2 {
						if x.Class == v.Class {
							found = true
						}
					}
					ok = found
				}
			}
			if !ok {
				res.Nondet++
				continue
			}
			seenClass[v.Class] = true
			res.Viol = append(res.Viol, ExecViolation{Violation: v, Choices: append([]int(nil), r.Choices...)})
		}
		if len(res.Sample) == 0 && len(r.Points) > 3 {
			for _, p := range r.Points {
				res.Sample = append(res.Sample, fmt.Sprintf("%c%d/%d@t%d:%s", p.Kind, p.Chosen, p.N, p.Thread, p.Label))
				if len(res.Sample) >= 40 {
					break
				}
			}
		}
		if t.Once {
			break
		}
		if t.Random.Runs > 0 {
			continue
		}
		kids := childPrefixes(r, len(prefix), t.Bounds)
		if t.Children {
			res.Children = kids
			break
		}
		// depth-first: push in reverse so the earliest alternative is explored first
		for i := len(kids) - 1; i >= 0; i-- {
			stack = append(stack, kids[i])
		}
	}
	return res
}

// Stats aggregated by the coordinator.
type Stats struct {
	Execs, Points, MaxPoints int
	Outcomes                 map[string]int
	Truncated                bool
	Nondet                   int
}

// Explore runs one scenario to the given bounds on the pool. Violations are
// reported through ctx (class prefixed with the scenario name by the caller's
// report function).
func Explore(ctx *core.Ctx, pool *par.Pool, scenario string, params interface{}, b Bounds, taskType string,
	report func(v ExecViolation)) Stats {

	st := Stats{Outcomes: map[string]int{}}
	praw, _ := json.Marshal(params)
	mkTask := func(prefix []int, children bool) []byte {
		t := Task{Type: taskType, Scenario: scenario, Params: praw, Prefix: prefix, Bounds: b, Children: children}
		if !ctx.Deadline.IsZero() {
			t.Deadline = ctx.Deadline.UnixNano()
		}
		js, _ := json.Marshal(t)
		return js
	}
	absorb := func(r *Result) {
		st.Execs += r.Execs
		st.Points += r.Points
		if r.MaxPoints > st.MaxPoints {
			st.MaxPoints = r.MaxPoints
		}
		for k, v := range r.Outcomes {
			st.Outcomes[k] += v
		}
		if r.Truncated {
			st.Truncated = true
		}
		st.Nondet += r.Nondet
		for _, v := range r.Viol {
			report(v)
		}
	}
	// level 0 and 1: split the tree into subtrees (two levels when the first is narrow)
	level := [][]int{nil}
	var subtrees [][]int
	for depth := 0; depth < 2; depth++ {
		tasks := make([][]byte, len(level))
		for i, p := range level {
			tasks[i] = mkTask(p, true)
		}
		var next [][]int
		failed := false
		pool.Run(tasks, time.Time{}, 10*time.Minute, func(i int, raw []byte, terr *par.TaskError) {
			if terr != nil {
				ctx.EngineError("explore %s: %s %s", scenario, terr.Msg, terr.Stderr)
				failed = true
				return
			}
			var r Result
			if err := json.Unmarshal(raw, &r); err != nil || r.EngineError != "" {
				ctx.EngineError("explore %s: %v %s", scenario, err, r.EngineError)
				failed = true
				return
			}
			absorb(&r)
			next = append(next, r.Children...)
		}, nil)
		if failed {
			return st
		}
		sort.Slice(next, func(i, j int) bool { return fmt.Sprint(next[i]) < fmt.Sprint(next[j]) })
		level = next
		if len(level) >= 4*pool.N || depth == 1 {
			subtrees = level
			break
		}
	}
	if len(subtrees) == 0 {
		return st
	}
	tasks := make([][]byte, len(subtrees))
	for i, p := range subtrees {
		tasks[i] = mkTask(p, false)
	}
	skipped := 0
	pool.Run(tasks, ctx.Deadline, 20*time.Minute, func(i int, raw []byte, terr *par.TaskError) {
		if terr != nil {
			ctx.EngineError("explore %s subtree %v: %s %s", scenario, subtrees[i], terr.Msg, terr.Stderr)
			return
		}
		var r Result
		if err := json.Unmarshal(raw, &r); err != nil || r.EngineError != "" {
			ctx.EngineError("explore %s subtree %v: %v %s", scenario, subtrees[i], err, r.EngineError)
			return
		}
		absorb(&r)
	}, func(int) { skipped++ })
	if skipped > 0 {
		st.Truncated = true
	}
	return st
}
