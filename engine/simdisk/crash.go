package simdisk

// Crash-image enumeration over an operation log.

// Unit is one independently persistable piece of an un-synced operation: a
// page-aligned piece of a write, or a truncate.
type Unit struct {
	OpIdx  int
	Off    int64
	Data   []byte
	Trunc  bool
	Size   int64
	Header bool // a write of less than a page into page 0 or 1 (a file header)
}

// CrashPoint describes the state at one I/O boundary.
type CrashPoint struct {
	K        int    // boundary: ops [0,K) have been issued
	Durable  []byte // image as of the last completed sync before K (do not modify)
	Pending  []Unit // un-synced units issued before K, in log order
	Markers  map[string]uint64
	LastMark string // most recent marker name before K
	LastArg  uint64
}

// Walk calls fn for every boundary k = 0..len(ops). Markers do not create
// boundaries of their own (a boundary directly after a marker is identical to
// the one before it, except for the marker state), but they are tracked.
func Walk(base []byte, ops []Op, pageSize int, fn func(cp *CrashPoint) bool) {
	durable := append([]byte(nil), base...)
	var pending []Unit
	cp := &CrashPoint{Markers: map[string]uint64{}}
	emit := func(k int) bool {
		cp.K = k
		cp.Durable = durable
		cp.Pending = pending
		return fn(cp)
	}
	if !emit(0) {
		return
	}
	for i, op := range ops {
		switch op.Kind {
		case OpWrite:
			pending = append(pending, splitWrite(i, op, pageSize)...)
		case OpTruncate:
			pending = append(pending, Unit{OpIdx: i, Trunc: true, Size: op.Size})
		case OpSync:
			for _, u := range pending {
				durable = ApplyUnit(durable, u)
			}
			pending = nil
		case OpFault:
			continue
		case OpSyncFail:
			// nothing became durable for sure
		case OpMarker:
			cp.Markers[op.Marker] = op.Arg
			cp.LastMark, cp.LastArg = op.Marker, op.Arg
			continue
		}
		if !emit(i + 1) {
			return
		}
	}
}

func splitWrite(idx int, op Op, pageSize int) []Unit {
	ps := int64(pageSize)
	if int64(len(op.Data)) < ps && op.Off/ps == (op.Off+int64(len(op.Data))-1)/ps {
		return []Unit{{OpIdx: idx, Off: op.Off, Data: op.Data, Header: op.Off/ps < 2 && len(op.Data) < pageSize}}
	}
	var out []Unit
	off, data := op.Off, op.Data
	for len(data) > 0 {
		n := ps - off%ps
		if n > int64(len(data)) {
			n = int64(len(data))
		}
		out = append(out, Unit{OpIdx: idx, Off: off, Data: data[:n]})
		off += n
		data = data[n:]
	}
	return out
}

// ApplyUnit applies u to img (which may be reallocated) and returns it.
func ApplyUnit(img []byte, u Unit) []byte {
	if u.Trunc {
		if u.Size <= int64(len(img)) {
			return img[:u.Size]
		}
		return append(img, make([]byte, u.Size-int64(len(img)))...)
	}
	end := u.Off + int64(len(u.Data))
	if end > int64(len(img)) {
		img = append(img, make([]byte, end-int64(len(img)))...)
	}
	copy(img[u.Off:], u.Data)
	return img
}

// BuildImage returns a fresh image: durable plus the pending units selected by
// mask (bit i = pending[i]); if tear >= 0, pending[tearUnit] (which must be
// selected and a header write) is applied only up to tear bytes.
func BuildImage(durable []byte, pending []Unit, mask uint64, tearUnit, tear int) []byte {
	img := append(make([]byte, 0, len(durable)+4096), durable...)
	for i, u := range pending {
		if mask&(1<<uint(i)) == 0 {
			continue
		}
		if i == tearUnit && tear >= 0 && !u.Trunc {
			t := u
			if tear < len(t.Data) {
				t.Data = t.Data[:tear]
			}
			if len(t.Data) > 0 {
				img = ApplyUnit(img, t)
			}
			continue
		}
		img = ApplyUnit(img, u)
	}
	return img
}
