// Package simdisk is an in-memory implementation of go-txfile's internal
// vfs.File with
//   - a page-cache image kept coherent with every live mmap view (MAP_SHARED),
//     views poisoned on unmap and beyond the end of file,
//   - an operation log (writes, syncs, truncates, harness markers) from which
//     every crash image "durable prefix + subset of un-synced writes" can be
//     built,
//   - fault plans (fail the i-th I/O call with a given failure kind for a burst
//     of calls),
//   - bookkeeping: maximum extent, lock balance, call counters.
//
// Every I/O call is a scheduling point of engine/sched.
package simdisk

import (
	"errors"
	"fmt"
	"io"
	"os"
	"sync"
	"unsafe"

	txfile "github.com/elastic/go-txfile"

	"verif/engine/sched"
)

// Poison is the fill byte of unmapped views and of view bytes past the end of
// the file.
const Poison = 0xDB

// OpKind enumerates logged operations.
type OpKind uint8

const (
	OpWrite OpKind = iota + 1
	OpSync
	OpTruncate
	OpMarker
	OpSyncFail // a sync that returned an error (nothing became durable)
	OpFault    // an injected failure of any call (Marker: call kind); no effect on contents
)

func (k OpKind) String() string {
	switch k {
	case OpWrite:
		return "write"
	case OpSync:
		return "sync"
	case OpTruncate:
		return "truncate"
	case OpMarker:
		return "marker"
	case OpSyncFail:
		return "syncfail"
	}
	return "?"
}

// Op is one logged operation.
type Op struct {
	Kind   OpKind
	Off    int64
	Data   []byte // copy of the written bytes
	Size   int64  // truncate target
	Marker string
	Arg    uint64
}

// FaultKind enumerates failure kinds.
type FaultKind uint8

const (
	FaultNone    FaultKind = iota
	FaultError             // error before any effect (any call)
	FaultShort             // WriteAt: first half applied, then error
	FaultNoSpace           // WriteAt/Truncate: ENOSPC-like error before effect
)

func (k FaultKind) String() string {
	return [...]string{"none", "error", "short-write", "nospace"}[k]
}

// CallKind enumerates faultable calls.
type CallKind uint8

const (
	CallWrite CallKind = iota + 1
	CallSync
	CallTruncate
	CallSize
	CallMMap
	CallMUnmap
	CallRead
)

func (k CallKind) String() string {
	return [...]string{"?", "write", "sync", "truncate", "size", "mmap", "munmap", "read"}[k]
}

// Plan is a fault plan: calls [Index, Index+Burst) of the global call counter
// fail; the first with Kind, the others with FaultError.
type Plan struct {
	Index int
	Kind  FaultKind
	Burst int
}

// ErrInjected is the error returned by injected faults.
var ErrInjected = errors.New("simdisk: injected I/O failure")

// ErrLocked is returned by Lock when the disk is already locked.
var ErrLocked = errors.New("simdisk: file is locked")

// Disk is the persistent part: it survives Close and is what a crash image
// replaces.
type Disk struct {
	Name     string
	PageSize int

	mu    sync.Mutex // plain (uninstrumented) build: the library's writer goroutine is a real goroutine
	data  []byte     // current page-cache contents
	base  []byte     // contents when the log was started
	log   []Op
	logOn bool

	locked      bool
	LockCalls   int
	UnlockCalls int
	MaxExtent   int64
	Calls       int        // faultable calls so far
	CallLog     []CallKind // kind of every faultable call (when CallLogOn)
	CallLogOn   bool
	plan        *Plan
	Faults      int // faults injected so far
	open        *File
}

// New returns an empty disk.
func New(name string, pageSize int) *Disk {
	return &Disk{Name: name, PageSize: pageSize}
}

// FromImage returns a disk with the given contents (copied).
func FromImage(name string, pageSize int, img []byte) *Disk {
	d := New(name, pageSize)
	d.data = append([]byte(nil), img...)
	d.MaxExtent = int64(len(img))
	return d
}

// Image returns a copy of the current contents.
func (d *Disk) Image() []byte { return append([]byte(nil), d.data...) }

// Bytes returns the current contents without copying (read-only use).
func (d *Disk) Bytes() []byte { return d.data }

// Len returns the current file size.
func (d *Disk) Len() int64 { return int64(len(d.data)) }

// StartLog snapshots the contents and starts logging operations.
func (d *Disk) StartLog() {
	d.base = append([]byte(nil), d.data...)
	d.log = nil
	d.logOn = true
}

// StopLog stops logging.
func (d *Disk) StopLog() { d.logOn = false }

// Log returns the operation log and the image it starts from.
func (d *Disk) Log() (base []byte, ops []Op) { return d.base, d.log }

// LogLen returns the number of logged operations.
func (d *Disk) LogLen() int { return len(d.log) }

// Mark appends a harness marker to the log.
func (d *Disk) Mark(name string, arg uint64) {
	if d.logOn {
		d.log = append(d.log, Op{Kind: OpMarker, Marker: name, Arg: arg})
	}
}

// SetPlan installs a fault plan (nil removes it).
func (d *Disk) SetPlan(p *Plan) {
	d.mu.Lock()
	d.plan = p
	d.mu.Unlock()
}

// CallCount returns the number of faultable calls so far.
func (d *Disk) CallCount() int {
	d.mu.Lock()
	defer d.mu.Unlock()
	return d.Calls
}

// PlanNext installs a plan failing the next n faultable calls.
func (d *Disk) PlanNext(kind FaultKind, n int) {
	d.mu.Lock()
	d.plan = &Plan{Index: d.Calls, Kind: kind, Burst: n}
	d.mu.Unlock()
}

// Locked reports whether the advisory lock is held.
func (d *Disk) Locked() bool {
	d.mu.Lock()
	defer d.mu.Unlock()
	return d.locked
}

// ForceUnlock drops the lock and detaches any open handle (simulates the
// process dying).
func (d *Disk) ForceUnlock() {
	d.locked = false
	d.open = nil
}

// fault decides whether the current call fails.
func (d *Disk) fault(kind CallKind) FaultKind {
	idx := d.Calls
	d.Calls++
	d.CallLog = append(d.CallLog, kind)
	p := d.plan
	if p == nil || idx < p.Index || idx >= p.Index+p.Burst {
		return FaultNone
	}
	d.Faults++
	if d.logOn {
		d.log = append(d.log, Op{Kind: OpFault, Marker: kind.String()})
	}
	if idx == p.Index {
		k := p.Kind
		if k == FaultShort && kind != CallWrite {
			k = FaultError
		}
		if k == FaultNoSpace && kind != CallWrite && kind != CallTruncate {
			k = FaultError
		}
		return k
	}
	return FaultError
}

// File is an open handle; it implements txfile.VerifFile (= internal vfs.File).
type File struct {
	d      *Disk
	closed bool
	views  [][]byte
}

var _ txfile.VerifFile = (*File)(nil)

// Open returns a handle on the disk. Only one handle is usable at a time.
func (d *Disk) Open() *File {
	f := &File{d: d}
	d.open = f
	return f
}

func (f *File) Name() string { return f.d.Name }

func (f *File) Close() error {
	sched.Step("io.close")
	f.closed = true
	return nil
}

func (f *File) Size() (int64, error) {
	sched.Step("io.size")
	f.d.mu.Lock()
	defer f.d.mu.Unlock()
	if f.d.fault(CallSize) != FaultNone {
		return 0, ErrInjected
	}
	return int64(len(f.d.data)), nil
}

func (f *File) ReadAt(p []byte, off int64) (int, error) {
	sched.Step("io.read")
	f.d.mu.Lock()
	defer f.d.mu.Unlock()
	d := f.d
	if off >= int64(len(d.data)) {
		return 0, io.EOF
	}
	n := copy(p, d.data[off:])
	if n < len(p) {
		return n, io.EOF
	}
	return n, nil
}

func (d *Disk) grow(sz int64) {
	if sz > int64(len(d.data)) {
		if sz <= int64(cap(d.data)) {
			old := len(d.data)
			d.data = d.data[:sz]
			for i := old; i < int(sz); i++ {
				d.data[i] = 0
			}
		} else {
			nd := make([]byte, sz, sz+sz/2+4096)
			copy(nd, d.data)
			d.data = nd
		}
	}
	if sz > d.MaxExtent {
		d.MaxExtent = sz
	}
}

func (f *File) apply(p []byte, off int64) {
	d := f.d
	oldLen := int64(len(d.data))
	d.grow(off + int64(len(p)))
	copy(d.data[off:], p)
	newLen := int64(len(d.data))
	for _, v := range f.views {
		vl := int64(len(v))
		if newLen > oldLen && oldLen < vl { // file grew: un-poison the new range
			end := newLen
			if end > vl {
				end = vl
			}
			copy(v[oldLen:end], d.data[oldLen:end])
		}
		if off < vl {
			copy(v[off:], p)
		}
	}
}

var debugIO = os.Getenv("VERIF_DEBUG_IO") != ""

func (f *File) WriteAt(p []byte, off int64) (int, error) {
	sched.Step("io.write")
	f.d.mu.Lock()
	defer f.d.mu.Unlock()
	d := f.d
	if debugIO {
		fmt.Printf("    [io] thread %d writes %d bytes at page %d (+%d)\n", sched.Self(), len(p), off/int64(d.PageSize), off%int64(d.PageSize))
	}
	switch d.fault(CallWrite) {
	case FaultError, FaultNoSpace:
		return 0, ErrInjected
	case FaultShort:
		n := len(p) / 2
		if n > 0 {
			f.apply(p[:n], off)
			if d.logOn {
				d.log = append(d.log, Op{Kind: OpWrite, Off: off, Data: append([]byte(nil), p[:n]...)})
			}
		}
		return n, ErrInjected
	}
	f.apply(p, off)
	if d.logOn {
		d.log = append(d.log, Op{Kind: OpWrite, Off: off, Data: append([]byte(nil), p...)})
	}
	return len(p), nil
}

func (f *File) Truncate(sz int64) error {
	sched.Step("io.truncate")
	f.d.mu.Lock()
	defer f.d.mu.Unlock()
	d := f.d
	if d.fault(CallTruncate) != FaultNone {
		return ErrInjected
	}
	old := int64(len(d.data))
	if sz > old {
		d.grow(sz)
	} else {
		d.data = d.data[:sz]
	}
	for _, v := range f.views {
		vl := int64(len(v))
		if sz > old && old < vl {
			end := sz
			if end > vl {
				end = vl
			}
			for i := old; i < end; i++ {
				v[i] = 0
			}
		}
		if sz < old && sz < vl {
			end := old
			if end > vl {
				end = vl
			}
			for i := sz; i < end; i++ {
				v[i] = Poison
			}
		}
	}
	if d.logOn {
		d.log = append(d.log, Op{Kind: OpTruncate, Size: sz})
	}
	return nil
}

func (f *File) Sync(flags txfile.VerifSyncFlag) error {
	sched.Step("io.sync")
	f.d.mu.Lock()
	defer f.d.mu.Unlock()
	d := f.d
	if d.fault(CallSync) != FaultNone {
		if d.logOn {
			d.log = append(d.log, Op{Kind: OpSyncFail})
		}
		return ErrInjected
	}
	if d.logOn {
		d.log = append(d.log, Op{Kind: OpSync, Arg: uint64(flags)})
	}
	return nil
}

func (f *File) Lock(exclusive, blocking bool) error {
	sched.Step("io.lock")
	f.d.mu.Lock()
	defer f.d.mu.Unlock()
	d := f.d
	d.LockCalls++
	if d.locked {
		return ErrLocked
	}
	d.locked = true
	return nil
}

func (f *File) Unlock() error {
	sched.Step("io.unlock")
	f.d.mu.Lock()
	defer f.d.mu.Unlock()
	d := f.d
	d.UnlockCalls++
	d.locked = false
	return nil
}

func (f *File) MMap(sz int) ([]byte, error) {
	sched.Step("io.mmap")
	f.d.mu.Lock()
	defer f.d.mu.Unlock()
	d := f.d
	if d.fault(CallMMap) != FaultNone {
		return nil, ErrInjected
	}
	v := make([]byte, sz)
	n := copy(v, d.data)
	for i := n; i < sz; i++ {
		v[i] = Poison
	}
	f.views = append(f.views, v)
	return v, nil
}

func (f *File) MUnmap(b []byte) error {
	sched.Step("io.munmap")
	f.d.mu.Lock()
	defer f.d.mu.Unlock()
	d := f.d
	if b == nil {
		return nil
	}
	if d.fault(CallMUnmap) != FaultNone {
		return ErrInjected
	}
	for i, v := range f.views {
		if len(v) > 0 && len(b) > 0 && unsafe.Pointer(&v[0]) == unsafe.Pointer(&b[0]) {
			for j := range v {
				v[j] = Poison
			}
			f.views = append(f.views[:i], f.views[i+1:]...)
			return nil
		}
	}
	return fmt.Errorf("simdisk: munmap of unknown mapping")
}

// LiveViews returns the number of live mappings.
func (f *File) LiveViews() int { return len(f.views) }

// Closed reports whether Close was called.
func (f *File) Closed() bool { return f.closed }
