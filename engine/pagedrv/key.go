package pagedrv

import (
	"crypto/sha256"
	"encoding/binary"
	"encoding/hex"
	"encoding/json"
	"sort"

	txfile "github.com/elastic/go-txfile"
)

// Header field offsets of the on-disk meta page (layout.go).
const (
	OffMagic     = 0
	OffVersion   = 4
	OffPageSize  = 8
	OffMaxSize   = 12
	OffFlags     = 20
	OffRoot      = 24
	OffTxid      = 32
	OffFreelist  = 40
	OffWAL       = 48
	OffDataEnd   = 56
	OffMetaEnd   = 64
	OffMetaTotal = 72
	OffChecksum  = 80
	HeaderSize   = 84
)

type keyDoc struct {
	Snap   txfile.VerifSnapshot
	Tx     *txfile.VerifTxState
	Lock   txfile.VerifLockState
	TxDiff int64
	Model  []modelEntry
	Root   uint64
	TM     *txModelDoc
	Max    int
}

type modelEntry struct {
	ID uint64
	V  Val
}

type txModelDoc struct {
	Root                uint64
	Writes              []modelEntry
	New, Freed, Flushed []uint64
	Overflow            bool
	WALLimit            int
}

func sortedSet(m map[uint64]bool) []uint64 {
	var out []uint64
	for k, v := range m {
		if v {
			out = append(out, k)
		}
	}
	sort.Slice(out, func(i, j int) bool { return out[i] < out[j] })
	return out
}

func sortedVals(m map[uint64]Val) []modelEntry {
	out := make([]modelEntry, 0, len(m))
	for k, v := range m {
		out = append(out, modelEntry{k, v})
	}
	sort.Slice(out, func(i, j int) bool { return out[i].ID < out[j].ID })
	return out
}

// Key returns the canonical state key: everything the library holds in memory
// that a future operation can read (hook snapshots), the on-disk image with
// the two header txid/checksum fields replaced by the signed txid difference
// of the slots, and the model. Argument for merging states with equal keys:
// txids influence behaviour only through +1 and the signed difference of the
// two slots, both invariant under a common shift; File.txids and time stamps
// are never read back; everything else is in the key (stale bytes of free
// pages included: over-fine, never unsound).
func (e *Env) Key() string {
	h := sha256.New()
	if e.F == nil {
		h.Write([]byte("closed"))
	} else {
		d := keyDoc{Snap: e.F.VerifSnapshot(), Lock: e.F.VerifLockState(), Max: e.Cfg.MaxPages}
		a := d.Snap.MetaActive
		d.TxDiff = int64(d.Snap.Txid[a] - d.Snap.Txid[1-a])
		d.Snap.Txid = [2]uint64{}
		d.Snap.Stats.Size = 0 // Size is an estimate refreshed at different moments; not read by the library
		if e.Tx != nil {
			ts := e.Tx.VerifTxState()
			d.Tx = &ts
		}
		d.Model, d.Root = sortedVals(e.M.Pages), e.M.Root
		if e.T != nil {
			d.TM = &txModelDoc{Root: e.T.Root, Writes: sortedVals(e.T.Writes), New: sortedSet(e.T.New), Freed: sortedSet(e.T.Freed),
				Flushed: sortedSet(e.T.Flushed), Overflow: e.T.Overflow, WALLimit: e.T.WALLimit}
		}
		js, _ := json.Marshal(d)
		h.Write(js)
	}
	img := e.Disk.Bytes()
	ps := e.Cfg.PageSize
	var lenb [8]byte
	binary.LittleEndian.PutUint64(lenb[:], uint64(len(img)))
	h.Write(lenb[:])
	if len(img) >= 2*ps {
		var zero [8]byte
		for slot := 0; slot < 2; slot++ {
			base := slot * ps
			h.Write(img[base : base+OffTxid])
			h.Write(zero[:8])
			h.Write(img[base+OffTxid+8 : base+OffChecksum])
			h.Write(zero[:4])
			h.Write(img[base+HeaderSize : base+ps])
		}
		h.Write(img[2*ps:])
	} else {
		h.Write(img)
	}
	return hex.EncodeToString(h.Sum(nil)[:16])
}

// Replay builds a fresh instance of cfg and applies path.
func Replay(cfg Cfg, path []Op) (*Env, error) {
	e, err := New(cfg)
	if err != nil {
		return nil, err
	}
	for _, op := range path {
		if e.Dead {
			break
		}
		e.Apply(op)
	}
	return e, nil
}
