package pagedrv

import (
	"fmt"

	txfile "github.com/elastic/go-txfile"

	"verif/engine/sched"
	"verif/engine/vdet"
)

// Role resolves a role index against the visible page list: r >= 0 is the
// r-th page, -1 the last, -2 the middle one.
func role(vis []uint64, r int) (uint64, bool) {
	n := len(vis)
	switch {
	case r >= 0 && r < n:
		return vis[r], true
	case r == -1 && n > 0:
		return vis[n-1], true
	case r == -2 && n > 2:
		return vis[n/2], true
	}
	return 0, false
}

// Enabled reports whether op is applicable (and not a guaranteed no-op) in
// the current state. Misuse (C15) is never produced here.
func (e *Env) Enabled(op Op) bool {
	if e.Dead || e.F == nil {
		return false
	}
	inTx := e.T != nil
	switch op.K {
	case OReopenWith:
		return !inTx && op.A != e.Cfg.MaxPages
	case OBegin, OReopen:
		return !inTx
	case OCommit, ORollback, OCloseTx:
		return inTx
	case OAlloc, OAllocFreeNew:
		return inTx
	case OAllocAvail:
		return inTx && e.Cfg.MaxPages > 0 && int(e.Avail())+op.A > 0
	case OWrite:
		if !inTx {
			return false
		}
		id, ok := role(e.Visible(), op.A)
		return ok && !e.T.Flushed[id]
	case OFree:
		if !inTx {
			return false
		}
		id, ok := role(e.Visible(), op.A)
		if !ok {
			return false
		}
		_, dirty := e.T.Writes[id]
		return !dirty
	case OFlushPage:
		if !inTx {
			return false
		}
		id, ok := role(e.Visible(), op.A)
		if !ok {
			return false
		}
		_, dirty := e.T.Writes[id]
		return dirty && !e.T.Flushed[id]
	case OFlushTx:
		return inTx && len(e.T.Writes) > len(e.T.Flushed)
	case OCheckpoint:
		return inTx && len(e.F.VerifSnapshot().WALMapping) > 0
	case OSetRoot:
		if !inTx {
			return false
		}
		if op.A == -9 {
			return true
		}
		_, ok := role(e.Visible(), op.A)
		return ok
	case OWriteAll:
		return inTx && len(e.Visible()) > 0
	case OFreeEveryOther, OFreeAll:
		return inTx && len(e.Visible()) > 0
	case OFreeRun:
		return inTx && op.A >= 0 && op.A+op.B <= len(e.Visible())
	}
	return false
}

// tight reports whether a bounded file is so full that a flush or commit may
// legitimately fail for lack of space (the library does not always tag that
// failure as OutOfMemory: tryCommitChanges drops the cause of a failed
// flush). With more room than this an error is a violation.
func (e *Env) tight() bool {
	if e.Cfg.MaxPages == 0 || e.F == nil {
		return false
	}
	s := e.F.VerifSnapshot()
	w := 0
	if e.T != nil {
		w = len(e.T.Writes)
	}
	return int(e.Avail()+s.MetaAvail) < w+8
}

// Avail is the number of pages a data allocation can still obtain, computed
// from the hook snapshot (bounded files only).
func (e *Env) Avail() uint {
	s := e.F.VerifSnapshot()
	a := s.DataAvail
	if s.MaxPages > 0 && uint(s.DataEnd) < s.MaxPages {
		a += s.MaxPages - uint(s.DataEnd)
	}
	return a
}

func (e *Env) page(id uint64, what string) *txfile.Page {
	var p *txfile.Page
	var err error
	if pn := Try(func() { p, err = e.Tx.Page(txfile.PageID(id)) }); pn != "" {
		e.violate("panic/Tx.Page", "%s: Tx.Page(%d) panicked: %s", what, id, pn)
		e.Dead = true
		return nil
	}
	if err != nil {
		e.violate("error/Tx.Page", "%s: Tx.Page(%d) on a visible page failed: %v", what, id, err)
		return nil
	}
	return p
}

// internalPages returns the set of pages the file uses internally right now.
func (e *Env) internalPages() map[uint64]string {
	s := e.F.VerifSnapshot()
	in := map[uint64]string{0: "header", 1: "header"}
	addRegs := func(rs []txfile.VerifRegion, what string) {
		for _, r := range rs {
			for i := uint64(0); i < uint64(r.Count); i++ {
				in[r.ID+i] = what
			}
		}
	}
	addRegs(s.FreelistPages, "freelist page")
	addRegs(s.WALMetaPages, "wal mapping page")
	addRegs(s.MetaFree, "meta area (free)")
	for _, kv := range s.WALMapping {
		in[kv[1]] = "overwrite page"
	}
	if e.Tx != nil {
		ts := e.Tx.VerifTxState()
		for _, id := range ts.Meta.Allocated {
			in[id] = "meta page allocated by this tx"
		}
		for _, id := range ts.Meta.New {
			in[id] = "meta page allocated by this tx"
		}
		for _, kv := range ts.WALNew {
			in[kv[1]] = "overwrite page of this tx"
		}
	}
	return in
}

func (e *Env) checkAllocated(ids []uint64, what string) {
	if !e.CheckAlloc {
		return
	}
	internal := e.internalPages()
	seen := map[uint64]bool{}
	for _, id := range ids {
		switch {
		case id < 2:
			e.violate("alloc/header", "%s returned header page id %d", what, id)
		case seen[id]:
			e.violate("alloc/duplicate", "%s returned page %d twice", what, id)
		case e.T.New[id] && !e.T.Freed[id]:
			e.violate("alloc/in-use-by-tx", "%s returned page %d, already allocated (and not freed) in this transaction", what, id)
		default:
			if _, live := e.M.Pages[id]; live {
				if e.T.Freed[id] {
					e.violate("alloc/freed-committed", "%s returned page %d, a committed page freed by this transaction", what, id)
				} else {
					e.violate("alloc/live", "%s returned page %d, live in the committed state", what, id)
				}
			} else if w, bad := internal[id]; bad {
				e.violate("alloc/internal", "%s returned page %d, in use as %s", what, id, w)
			}
		}
		seen[id] = true
	}
}

func (e *Env) doAlloc(n int, what string) ([]uint64, bool) {
	var pages []*txfile.Page
	var err error
	pn := Try(func() {
		if n == 1 {
			var p *txfile.Page
			p, err = e.Tx.Alloc()
			if p != nil {
				pages = []*txfile.Page{p}
			}
		} else {
			pages, err = e.Tx.AllocN(n)
		}
	})
	if pn != "" {
		e.violate("panic/Alloc", "%s panicked: %s", what, pn)
		e.Dead = true
		return nil, false
	}
	if err != nil {
		if !IsOOM(err) {
			e.violate("error/Alloc", "%s failed with a non out-of-space error: %v", what, err)
		} else if e.Cfg.MaxPages == 0 {
			e.violate("alloc/oom-unbounded", "%s reported out of space on an unbounded file", what)
		}
		e.obs("%s=%s", what, ErrKind(err))
		return nil, false
	}
	if len(pages) != n {
		e.violate("alloc/count", "%s returned %d pages", what, len(pages))
	}
	ids := make([]uint64, len(pages))
	for i, p := range pages {
		ids[i] = uint64(p.ID())
	}
	e.checkAllocated(ids, what)
	for _, id := range ids {
		e.T.New[id] = true
		delete(e.T.Freed, id)
		delete(e.T.Writes, id)
		delete(e.T.Flushed, id)
	}
	e.obs("%s=%v", what, ids)
	return ids, true
}

func (e *Env) doWrite(id uint64, mode int) {
	p := e.page(id, "write")
	if p == nil {
		return
	}
	ps := e.Cfg.PageSize
	cur := e.cur(id)
	var v Val
	var err error
	var pn string
	switch mode {
	case WFull:
		s := nextSym(cur[0])
		v = Val{s, s}
		pn = Try(func() { err = p.SetBytes(PageBytes(ps, id, v)) })
	case WPartial:
		s := nextSym(cur[0])
		v = Val{s, cur[1]}
		if cur[1] == Undef && e.T.New[id] {
			v[1] = 0 // fresh page: the load buffer is zero filled
		}
		pn = Try(func() { err = p.SetBytes(PageBytes(ps, id, Val{s, s})[:ps/2]) })
	case WLoad:
		pn = Try(func() {
			if err = p.Load(); err != nil {
				return
			}
			var b []byte
			b, err = p.Bytes()
			if err != nil {
				return
			}
			if cur[0] == Undef && cur[1] == Undef && e.T.New[id] {
				cur = Val{0, 0}
			}
			if !matches(b, ps, id, cur) {
				e.violate("read/tx-own", "Load+Bytes of page %d in the write transaction shows %s, expected %v", id, Describe(b), cur)
			}
			s := nextSym(cur[1])
			v = Val{cur[0], s}
			FillHalf(b[ps/2:], id, s, 1)
			err = p.MarkDirty()
		})
	}
	if pn != "" {
		e.violate("panic/Write", "write(mode %d) of page %d panicked: %s", mode, id, pn)
		e.Dead = true
		return
	}
	if err != nil {
		if mode != WFull && cur[0] == Undef && cur[1] == Undef && !e.T.New[id] {
			// A partial write or a Load needs the original contents of a page
			// that was allocated in an earlier transaction and never written:
			// nothing defines them (in an unbounded file the page may lie
			// beyond the mapped file), so the call may fail; it changed nothing.
			e.obs("write(mode %d) of never written page %d: %v", mode, id, ErrKind(err))
			return
		}
		e.violate("error/Write", "write(mode %d) of page %d failed: %v", mode, id, err)
		return
	}
	e.T.Writes[id] = v
	// reads inside the transaction return its own latest write
	var b []byte
	if pn := Try(func() { b, err = p.Bytes() }); pn != "" {
		e.violate("panic/Bytes", "Bytes of page %d panicked: %s", id, pn)
		e.Dead = true
		return
	}
	if err != nil {
		e.violate("error/Bytes", "Bytes of just written page %d failed: %v", id, err)
	} else if !matches(b, ps, id, v) {
		e.violate("read/tx-own", "page %d reads %s inside the writing transaction, expected %v", id, Describe(b), v)
	}
}

func (e *Env) doFree(id uint64) bool {
	p := e.page(id, "free")
	if p == nil {
		return false
	}
	var err error
	if pn := Try(func() { err = p.Free() }); pn != "" {
		e.violate("panic/Free", "Free of page %d panicked: %s", id, pn)
		e.Dead = true
		return false
	}
	if err != nil {
		e.violate("error/Free", "Free of clean visible page %d failed: %v", id, err)
		return false
	}
	e.T.Freed[id] = true
	delete(e.T.Writes, id)
	return true
}

func (e *Env) syncFlushed() {
	ts := e.Tx.VerifTxState()
	for _, p := range ts.Pages {
		if p.Flushed {
			e.T.Flushed[p.ID] = true
		}
	}
}

// abortTx is used when the library reports out-of-space in the middle of a
// multi-page operation: the transaction is rolled back so model and
// implementation stay aligned.
func (e *Env) abortTx(why string) {
	var err error
	if pn := Try(func() { err = e.Tx.Rollback() }); pn != "" {
		e.violate("panic/Rollback", "Rollback after %s panicked: %s", why, pn)
		e.Dead = true
	} else if err != nil {
		e.violate("error/Rollback", "Rollback after %s failed: %v", why, err)
	}
	e.Tx, e.T = nil, nil
}

// Apply executes op against implementation and model and evaluates the
// per-operation oracles. Violations accumulate in e.Viol.
func (e *Env) Apply(op Op) {
	e.Ops++
	if e.Eager {
		defer sched.LetOthersRun()
	}
	if op.M != 0 {
		vdet.SetOrder(op.M)
		defer vdet.SetOrder(0)
	}
	switch op.K {
	case OBegin:
		var tx *txfile.Tx
		var err error
		pn := Try(func() {
			tx, err = e.F.BeginWith(txfile.TxOptions{WALLimit: uint(op.A), EnableOverflowArea: op.B == 1})
		})
		if pn != "" || err != nil {
			e.violate("begin", "Begin failed: %v %s", err, pn)
			e.Dead = true
			return
		}
		e.Tx = tx
		if op.B == 1 {
			e.OverflowUsed = true
		}
		e.T = &TxModel{Root: e.M.Root, Writes: map[uint64]Val{}, New: map[uint64]bool{}, Freed: map[uint64]bool{},
			Flushed: map[uint64]bool{}, Overflow: op.B == 1, WALLimit: op.A}
		if uint64(tx.Root()) != e.M.Root {
			e.violate("read/root", "write transaction sees root %d, committed root is %d", tx.Root(), e.M.Root)
		}

	case OAlloc:
		e.doAlloc(op.A, fmt.Sprintf("AllocN(%d)", op.A))

	case OAllocAvail:
		n := int(e.Avail()) + op.A
		ids, ok := e.doAlloc(n, fmt.Sprintf("AllocN(avail%+d=%d)", op.A, n))
		_ = ids
		if op.A > 0 && ok && !e.T.Overflow {
			e.violate("space/over-allocation", "AllocN(avail+%d) succeeded on a bounded file", op.A)
		}

	case OAllocFreeNew:
		ids, ok := e.doAlloc(op.A, fmt.Sprintf("AllocN(%d)", op.A))
		if ok && len(ids) > 0 {
			i := 0
			switch op.B {
			case 1:
				i = len(ids) / 2
			case 2:
				i = len(ids) - 1
			}
			e.doFree(ids[i])
		}

	case OWrite:
		id, _ := role(e.Visible(), op.A)
		e.doWrite(id, op.B)

	case OWriteAll:
		for _, id := range e.Visible() {
			if !e.T.Flushed[id] && !e.Dead {
				e.doWrite(id, op.B)
			}
		}

	case OFree:
		id, _ := role(e.Visible(), op.A)
		e.doFree(id)

	case OFreeEveryOther, OFreeAll:
		for i, id := range e.Visible() {
			if op.K == OFreeEveryOther && i%2 != op.A%2 {
				continue
			}
			if _, dirty := e.T.Writes[id]; dirty || e.Dead {
				continue
			}
			e.doFree(id)
		}

	case OFreeRun:
		vis := e.Visible()
		for _, id := range vis[op.A : op.A+op.B] {
			if _, dirty := e.T.Writes[id]; dirty || e.Dead {
				continue
			}
			e.doFree(id)
		}

	case OFlushPage:
		id, _ := role(e.Visible(), op.A)
		p := e.page(id, "flush")
		if p == nil {
			return
		}
		var err error
		if pn := Try(func() { err = p.Flush() }); pn != "" {
			e.violate("panic/Flush", "Page.Flush of %d panicked: %s", id, pn)
			e.Dead = true
			return
		}
		if err != nil {
			if !IsOOM(err) && !e.tight() {
				e.violate("error/Flush", "Page.Flush of %d failed: %v", id, err)
			}
			e.obs("flush=%s", ErrKind(err))
		}
		e.syncFlushed()

	case OFlushTx:
		var err error
		if pn := Try(func() { err = e.Tx.Flush() }); pn != "" {
			e.violate("panic/Flush", "Tx.Flush panicked: %s", pn)
			e.Dead = true
			return
		}
		if err != nil {
			if !IsOOM(err) && !e.tight() {
				e.violate("error/Flush", "Tx.Flush failed: %v", err)
			}
			e.obs("flushtx=%s", ErrKind(err))
		}
		e.syncFlushed()

	case OCheckpoint:
		var err error
		if pn := Try(func() { err = e.Tx.CheckpointWAL() }); pn != "" {
			e.violate("panic/Checkpoint", "CheckpointWAL panicked: %s", pn)
			e.Dead = true
			return
		}
		if err != nil {
			e.violate("error/Checkpoint", "CheckpointWAL failed: %v", err)
		}

	case OSetRoot:
		var id uint64
		if op.A != -9 {
			id, _ = role(e.Visible(), op.A)
		}
		e.Tx.SetRoot(txfile.PageID(id))
		e.T.Root = id

	case OCommit:
		e.Commit()

	case ORollback, OCloseTx:
		var err error
		pn := Try(func() {
			if op.K == ORollback {
				err = e.Tx.Rollback()
			} else {
				err = e.Tx.Close()
			}
		})
		if pn != "" {
			e.violate("panic/Rollback", "%v panicked: %s", op, pn)
			e.Dead = true
			return
		}
		if err != nil {
			e.violate("error/Rollback", "%v failed: %v", op, err)
		}
		e.Tx, e.T = nil, nil
		e.afterTx()

	case OReopen:
		e.Reopen(e.Opts)

	case OReopenWith:
		o := e.Opts
		o.Flags |= txfile.FlagUpdMaxSize
		o.MaxSize = uint64(op.A * e.Cfg.PageSize)
		o.Prealloc = op.B == 1
		old := e.Cfg.MaxPages
		// previous extent: the bytes on disk or, if larger, the page range the file has handed out
		// (pages that were allocated but never written lie inside the file, whatever its length says)
		prevExtent := e.Disk.Len()
		if e.F != nil {
			s := e.F.VerifSnapshot()
			end := s.DataEnd
			if s.MetaEnd > end {
				end = s.MetaEnd
			}
			if x := int64(end) * int64(e.Cfg.PageSize); x > prevExtent {
				prevExtent = x
			}
		}
		if e.Reopen(o) {
			e.Cfg.MaxPages = op.A
			e.Opts.MaxSize = o.MaxSize
			shrink := op.A != 0 && (old == 0 || op.A < old)
			if shrink {
				e.ExtentCap = prevExtent
				if lim := int64(op.A * e.Cfg.PageSize); lim > e.ExtentCap {
					e.ExtentCap = lim
				}
				e.Disk.MaxExtent = e.Disk.Len()
			} else {
				e.ExtentCap = 0
			}
		}
	}
}

// CommitModel folds the overlay into a copy of the committed model.
func (e *Env) CommitModel() State {
	m := e.M.clone()
	for id := range e.T.Freed {
		delete(m.Pages, id)
	}
	for id := range e.T.New {
		if !e.T.Freed[id] {
			m.Pages[id] = Val{Undef, Undef}
		}
	}
	for id, v := range e.T.Writes {
		if !e.T.Freed[id] {
			m.Pages[id] = v
		}
	}
	m.Root = e.T.Root
	return m
}

// Commit commits the running transaction (fault-free expectations: success
// or out-of-space).
func (e *Env) Commit() {
	next := e.CommitModel()
	tight := e.tight()
	e.Disk.Mark("commit-begin", e.LastTxid+1)
	var err error
	if pn := Try(func() { err = e.Tx.Commit() }); pn != "" {
		e.violate("panic/Commit", "Commit panicked: %s", pn)
		e.Dead = true
		return
	}
	if err != nil {
		e.Disk.Mark("commit-fail", e.LastTxid+1)
		if !IsOOM(err) && !tight {
			e.violate("error/Commit", "Commit failed without any injected fault and with space left: %v", err)
		} else if e.Cfg.MaxPages == 0 {
			e.violate("error/Commit", "Commit reported out of space on an unbounded file: %v", err)
		}
		e.obs("commit=%s", ErrKind(err))
		e.Tx, e.T = nil, nil
		e.afterTx()
		return
	}
	e.M = next
	e.Tx, e.T = nil, nil
	prev := e.LastTxid
	e.recordCommitted()
	e.Disk.Mark("commit-ok", e.LastTxid)
	if e.LastTxid != prev+1 {
		e.violate("commit/txid", "header txid went from %d to %d in one commit", prev, e.LastTxid)
	}
	e.obs("commit=ok")
	if e.DiskCheck {
		e.CheckDisk(e.M, "after the commit")
	}
	e.afterTx()
}

func (e *Env) afterTx() {
	if e.ReadCheck && !e.Dead {
		e.VerifyRead("after transaction")
	}
}

// Reopen closes and reopens the file with the given options.
func (e *Env) Reopen(o txfile.Options) bool {
	var err error
	if pn := Try(func() { err = e.F.Close() }); pn != "" {
		e.violate("panic/Close", "File.Close panicked: %s", pn)
		e.Dead = true
		return false
	}
	if err != nil {
		e.violate("error/Close", "File.Close failed: %v", err)
	}
	e.F = nil
	if pn := Try(func() { err = e.open(o) }); pn != "" {
		e.violate("panic/Open", "Open panicked: %s", pn)
		e.Dead = true
		return false
	}
	if err != nil {
		e.violate("error/Open", "reopening a cleanly closed file failed: %s", ErrChain(err))
		e.Dead = true
		return false
	}
	e.SyncTxid()
	if e.ReadCheck {
		e.VerifyRead("after reopen")
	}
	return true
}

// SyncTxid adopts the header txid after an open (open-time maintenance
// transactions advance it without changing the logical state).
func (e *Env) SyncTxid() {
	s := e.F.VerifSnapshot()
	if t := s.Txid[s.MetaActive]; t != e.LastTxid {
		e.LastTxid = t
		e.ByTxid[t] = e.M.clone()
	}
}

// VerifyRead checks, in a read transaction, that root and every live page
// equal the committed model.
func (e *Env) VerifyRead(when string) {
	e.VerifyAgainst(e.M, when, "read")
}

// VerifyAgainst checks a read transaction against an arbitrary model state.
func (e *Env) VerifyAgainst(m State, when, class string) bool {
	ok := true
	var tx *txfile.Tx
	var err error
	if pn := Try(func() { tx, err = e.F.BeginReadonly() }); pn != "" || err != nil {
		e.violate("panic/BeginReadonly", "BeginReadonly %s failed: %v %s", when, err, pn)
		e.Dead = true
		return false
	}
	pn := Try(func() {
		if uint64(tx.Root()) != m.Root {
			e.violate(class+"/root", "%s: root is %d, model root is %d", when, tx.Root(), m.Root)
			ok = false
		}
		for _, id := range m.IDs() {
			v := m.Pages[id]
			if v[0] == Undef && v[1] == Undef {
				continue // allocated but never written: no contents to compare, possibly beyond the end of the file
			}
			p, err := tx.Page(txfile.PageID(id))
			if err != nil {
				e.violate(class+"/page-access", "%s: live page %d not accessible: %v", when, id, err)
				ok = false
				continue
			}
			b, err := p.Bytes()
			if err != nil {
				e.violate(class+"/page-access", "%s: live page %d not readable: %v", when, id, err)
				ok = false
				continue
			}
			if !matches(b, e.Cfg.PageSize, id, v) {
				e.violate(class+"/content", "%s: page %d reads %s, model says %v", when, id, Describe(b), v)
				ok = false
			}
		}
	})
	if pn != "" {
		e.violate("panic/read", "%s: reading panicked: %s", when, pn)
		ok = false
	}
	if pn := Try(func() { err = tx.Close() }); pn != "" || err != nil {
		e.violate("panic/TxClose", "closing the read transaction %s failed: %v %s", when, err, pn)
		e.Dead = true
		return false
	}
	return ok
}

// CloseFile closes the file (end of a history).
func (e *Env) CloseFile() {
	if e.F == nil {
		return
	}
	if e.Tx != nil {
		Try(func() { e.Tx.Close() })
		e.Tx, e.T = nil, nil
	}
	Try(func() { e.F.Close() })
	e.F = nil
}

// WritePage writes one visible page by id (probes).
func (e *Env) WritePage(id uint64, mode int) {
	if e.T == nil || e.Dead || e.T.Flushed[id] {
		return
	}
	e.doWrite(id, mode)
}
