package pagedrv

import (
	"encoding/json"
	"fmt"
	"sort"

	txfile "github.com/elastic/go-txfile"
)

// Logical is the representation-independent state of an open file: what a
// user can observe now or through any future operation, with free lists as
// page sets (region split and file length are representation).
type Logical struct {
	MaxPages  uint
	DataEnd   uint64
	MetaEnd   uint64
	DataFree  []uint64
	MetaFree  []uint64
	MetaTotal uint
	ListPages []uint64
	WAL       [][2]uint64
	WALPages  []uint64
	Root      uint64
	Stats     txfile.FileStats
	Model     []modelEntry
	Lock      txfile.VerifLockState
}

func expand(rs []txfile.VerifRegion) []uint64 {
	var out []uint64
	for _, r := range rs {
		for i := uint64(0); i < uint64(r.Count); i++ {
			out = append(out, r.ID+i)
		}
	}
	sort.Slice(out, func(i, j int) bool { return out[i] < out[j] })
	return out
}

// Logical returns the logical state of the open file.
func (e *Env) Logical() Logical {
	s := e.F.VerifSnapshot()
	l := Logical{MaxPages: s.MaxPages, DataEnd: s.DataEnd, MetaEnd: s.MetaEnd, DataFree: expand(s.DataFree), MetaFree: expand(s.MetaFree),
		MetaTotal: s.MetaTotal, ListPages: expand(s.FreelistPages), WAL: s.WALMapping, WALPages: expand(s.WALMetaPages), Root: s.Root,
		Stats: s.Stats, Model: sortedVals(e.M.Pages), Lock: e.F.VerifLockState()}
	l.Stats.Size = 0
	return l
}

// String renders the logical state as JSON.
func (l Logical) String() string {
	js, _ := json.Marshal(l)
	return string(js)
}

// AllocatableData returns the set of data pages an allocation could return
// on a bounded file (free list plus everything between the end marker and the
// limit).
func (l Logical) AllocatableData() []uint64 {
	out := append([]uint64(nil), l.DataFree...)
	for p := l.DataEnd; p < uint64(l.MaxPages); p++ {
		out = append(out, p)
	}
	sort.Slice(out, func(i, j int) bool { return out[i] < out[j] })
	return out
}

// DiffLogical describes the first difference between two logical states.
func DiffLogical(a, b Logical) string {
	if a.String() == b.String() {
		return ""
	}
	ja, _ := json.Marshal(a)
	jb, _ := json.Marshal(b)
	var ma, mb map[string]interface{}
	json.Unmarshal(ja, &ma)
	json.Unmarshal(jb, &mb)
	var keys []string
	for k := range ma {
		keys = append(keys, k)
	}
	sort.Strings(keys)
	out := ""
	for _, k := range keys {
		va, _ := json.Marshal(ma[k])
		vb, _ := json.Marshal(mb[k])
		if string(va) != string(vb) {
			out += fmt.Sprintf("%s: %s vs %s; ", k, trunc(string(va)), trunc(string(vb)))
		}
	}
	return out
}

func trunc(s string) string {
	if len(s) > 300 {
		return s[:300] + "..."
	}
	return s
}

// ApplyIfEnabled applies op if it is enabled, and records either way, so a
// difference in enabledness between twins shows in the observation log.
func (e *Env) ApplyIfEnabled(op Op) {
	if e.Dead {
		return
	}
	if !e.Enabled(op) {
		e.obs("%v: not enabled", op)
		return
	}
	e.obs("%v:", op)
	e.Apply(op)
}

// IOSig is the shape of the I/O issued by the most recent operation: kinds,
// target classes (H header, L a page live in the committed model, F other),
// pending-set size at its start and a few state features. It is used only to
// select which transitions are crash- or fault-tested first (one
// representative per shape); it is never an oracle.
func (e *Env) IOSig() string {
	_, ops := e.Disk.Log()
	if e.LastOpLog > len(ops) {
		return ""
	}
	pend := 0
	for _, op := range ops[:e.LastOpLog] {
		switch op.Kind {
		case 1, 3: // write, truncate
			pend++
		case 2:
			pend = 0
		}
	}
	ps := int64(e.Cfg.PageSize)
	prev := e.LastTxid
	for _, op := range ops[e.LastOpLog:] {
		if op.Kind == 4 && op.Marker == "commit-ok" {
			prev = e.LastTxid - 1
		}
	}
	before := e.ByTxid[prev]
	m3 := func(n, m int) int {
		if n > m {
			return m
		}
		return n
	}
	sig := fmt.Sprintf("%s|p%d|l%d|", e.Cfg.Name, pend, m3(len(before.Pages), 3))
	if e.F != nil {
		sn := e.F.VerifSnapshot()
		sig += fmt.Sprintf("w%d|f%d|m%d|", m3(len(sn.WALMapping), 2), m3(len(sn.DataFree), 2), m3(int(sn.MetaTotal), 1))
	}
	cur := int64(-1)
	for _, op := range ops[e.LastOpLog:] {
		switch op.Kind {
		case 1:
			pg := op.Off / ps
			cl := "F"
			if pg < 2 {
				cl = fmt.Sprintf("H%d", pg)
			} else if _, live := before.Pages[uint64(pg)]; live {
				cl = "L"
			}
			sig += "W" + cl
		case 2:
			sig += "S"
		case 3:
			if cur < 0 || op.Size >= cur {
				sig += "T+"
			} else {
				sig += "T-"
			}
			cur = op.Size
		case 5:
			sig += "X"
		}
	}
	return sig
}
