// Package pagedrv drives go-txfile's page API (File/Tx/Page) on a simulated
// disk next to a boring reference model: committed state = root + map of page
// id to a two-half value; a write transaction is an overlay on top of it.
// Pages are addressed by role (index into the sorted list of pages visible to
// the running transaction), never by raw id, and written with a
// self-identifying pattern, so stale, foreign or mixed contents are recognised
// from the bytes alone.
package pagedrv

import (
	"bytes"
	"encoding/binary"
	"encoding/json"
	"errors"
	"fmt"
	"os"
	"runtime/debug"
	"sort"
	"strconv"
	"strings"

	txfile "github.com/elastic/go-txfile"
	"github.com/elastic/go-txfile/txerr"

	"verif/engine/diskfmt"
	"verif/engine/sched"
	"verif/engine/simdisk"
)

// Cfg is a file configuration.
type Cfg struct {
	Name     string
	PageSize int
	MaxPages int // 0: unbounded
	InitMeta int
	Prealloc bool
	SyncFull bool
	Extra    int // bytes added to the configured maximum size (a limit that is not a multiple of the page size)
}

// Standard configurations (see DESIGN.md section 5).
var (
	CfgA = Cfg{Name: "A", PageSize: 1024, MaxPages: 64}
	CfgB = Cfg{Name: "B", PageSize: 1024, MaxPages: 64, InitMeta: 4, Prealloc: true}
	CfgC = Cfg{Name: "C", PageSize: 1024, MaxPages: 0}
	CfgD = Cfg{Name: "D", PageSize: 4096, MaxPages: 32, InitMeta: 2}
	CfgE = Cfg{Name: "E", PageSize: 1024, MaxPages: 1024}
	CfgF = Cfg{Name: "F", PageSize: 1024, MaxPages: 0, InitMeta: 8}
	// smallest legal bounded files with 4 KiB pages (64 KiB = 16 pages): data and meta allocations collide early
	CfgP16 = Cfg{Name: "P16", PageSize: 4096, MaxPages: 16}
	CfgP17 = Cfg{Name: "P17", PageSize: 4096, MaxPages: 17}
	CfgP21 = Cfg{Name: "P21", PageSize: 4096, MaxPages: 21}
	// large pages (header probing, mmap sizing)
	// maximum size that is not a multiple of the page size (documented: rounded down to full pages)
	CfgU = Cfg{Name: "U", PageSize: 1024, MaxPages: 64, Extra: 1000}
	// pre-sized meta areas around the 255-page boundary of the free-list encoding (the meta free list of a fresh file is one region)
	CfgI255 = Cfg{Name: "I255", PageSize: 1024, MaxPages: 1024, InitMeta: 256} // 1 page holds the free list, 255 are free
	CfgI256 = Cfg{Name: "I256", PageSize: 1024, MaxPages: 1024, InitMeta: 257}
	CfgI254 = Cfg{Name: "I254", PageSize: 1024, MaxPages: 1024, InitMeta: 255}
	CfgG    = Cfg{Name: "G", PageSize: 65536, MaxPages: 0}
	CfgH    = Cfg{Name: "H", PageSize: 131072, MaxPages: 16}
)

// CfgByName looks a configuration up.
func CfgByName(n string) (Cfg, bool) {
	for _, c := range []Cfg{CfgA, CfgB, CfgC, CfgD, CfgE, CfgF, CfgP16, CfgP17, CfgP21, CfgG, CfgH, CfgU, CfgI254, CfgI255, CfgI256} {
		if c.Name == n {
			return c, true
		}
	}
	// "M<n>": plain bounded file of n 1 KiB pages (sweeps over the file size)
	if len(n) > 1 && n[0] == 'M' {
		if v, err := strconv.Atoi(n[1:]); err == nil && v >= 64 && v <= 4096 {
			return Cfg{Name: n, PageSize: 1024, MaxPages: v}, true
		}
	}
	return Cfg{}, false
}

// Options returns the txfile options creating/opening this configuration.
func (c Cfg) Options() txfile.Options {
	o := txfile.Options{
		MaxSize:      uint64(c.MaxPages*c.PageSize + c.Extra),
		PageSize:     uint32(c.PageSize),
		InitMetaArea: uint32(c.InitMeta),
		Prealloc:     c.Prealloc,
	}
	if c.SyncFull {
		o.Sync = txfile.SyncFull
	}
	return o
}

// OpKind enumerates driver operations.
type OpKind uint8

const (
	OBegin          OpKind = iota + 1 // A: WAL limit (0 default), B: 1 = overflow area enabled
	OCommit                           //
	ORollback                         //
	OCloseTx                          //
	OAlloc                            // A: n (1 => Alloc, else AllocN); negative: avail+A+... see AllocAvail
	OAllocAvail                       // A: delta; AllocN(avail+delta) on bounded files
	OWrite                            // A: role, B: mode
	OFree                             // A: role
	OFlushPage                        // A: role
	OFlushTx                          //
	OCheckpoint                       //
	OSetRoot                          // A: role (-1: root 0)
	OReopen                           //
	OReopenWith                       // A: new max pages (0 unbounded), B: 1 = prealloc
	OWriteAll                         // B: mode; writes every visible, writable page
	OFreeEveryOther                   // frees every second visible clean page (A: start parity)
	OFreeAll                          // frees every visible clean page
	OAllocFreeNew                     // A: n, B: which (0 first,1 middle,2 last): AllocN(n) then free one of the new pages
	OFreeRun                          // A: index of the first visible page, B: count: frees B consecutive visible clean pages
)

var opNames = map[OpKind]string{
	OBegin: "Begin", OCommit: "Commit", ORollback: "Rollback", OCloseTx: "CloseTx", OAlloc: "Alloc",
	OAllocAvail: "AllocAvail", OWrite: "Write", OFree: "Free", OFlushPage: "FlushPage", OFlushTx: "FlushTx",
	OCheckpoint: "Checkpoint", OSetRoot: "SetRoot", OReopen: "Reopen", OReopenWith: "ReopenWith",
	OWriteAll: "WriteAll", OFreeEveryOther: "FreeEveryOther", OFreeAll: "FreeAll", OAllocFreeNew: "AllocFreeNew", OFreeRun: "FreeRun",
}

// Write modes.
const (
	WFull    = 0 // SetBytes with a full page
	WPartial = 1 // SetBytes with the first half of a page
	WLoad    = 2 // Load, modify the second half in place, MarkDirty
)

// Op is one driver operation.
type Op struct {
	K OpKind `json:"k"`
	A int    `json:"a,omitempty"`
	B int    `json:"b,omitempty"`
	// M selects the order in which the library's map iterations run during
	// this operation (Go leaves it unspecified): 0 ascending keys, 1
	// descending, 2 rotated by half.
	M int `json:"m,omitempty"`
}

func (o Op) String() string {
	n := opNames[o.K]
	if o.M != 0 {
		n = []string{"", "desc:", "rot:"}[o.M%3] + n
	}
	switch o.K {
	case OCommit, ORollback, OCloseTx, OFlushTx, OCheckpoint, OReopen, OFreeAll:
		return n
	case OAlloc, OAllocAvail, OFree, OFlushPage, OSetRoot, OFreeEveryOther:
		return fmt.Sprintf("%s(%d)", n, o.A)
	}
	return fmt.Sprintf("%s(%d,%d)", n, o.A, o.B)
}

// PathString renders an operation list.
func PathString(p []Op) string {
	var b bytes.Buffer
	for i, o := range p {
		if i > 0 {
			b.WriteString("; ")
		}
		b.WriteString(o.String())
	}
	return b.String()
}

// Val is the model value of a page: one symbol per half. 0 = zero bytes,
// Undef = contents never defined.
type Val [2]uint8

// Undef marks a half whose contents the model does not define.
const Undef = 255

func nextSym(x uint8) uint8 {
	if x == Undef {
		return 1
	}
	return x%3 + 1
}

// State is a committed model state.
type State struct {
	Root  uint64
	Pages map[uint64]Val
}

func (s State) clone() State {
	n := State{Root: s.Root, Pages: make(map[uint64]Val, len(s.Pages))}
	for k, v := range s.Pages {
		n.Pages[k] = v
	}
	return n
}

// IDs returns the live page ids in ascending order.
func (s State) IDs() []uint64 {
	ids := make([]uint64, 0, len(s.Pages))
	for id := range s.Pages {
		ids = append(ids, id)
	}
	sort.Slice(ids, func(i, j int) bool { return ids[i] < ids[j] })
	return ids
}

// TxModel is the overlay of the running write transaction.
type TxModel struct {
	Root     uint64
	Writes   map[uint64]Val  // pages written (dirty) in this tx
	New      map[uint64]bool // pages allocated in this tx
	Freed    map[uint64]bool
	Flushed  map[uint64]bool
	Overflow bool
	WALLimit int
}

// Violation is an oracle failure.
type Violation struct {
	Class string `json:"class"`
	Msg   string `json:"msg"`
}

// Env is one live instance: simulated disk, open file, optional open write
// transaction, model.
type Env struct {
	Cfg  Cfg
	Opts txfile.Options
	Disk *simdisk.Disk
	H    *simdisk.File
	F    *txfile.File
	Tx   *txfile.Tx
	M    State
	T    *TxModel

	// ByTxid records the committed model state per header txid (crash and
	// corruption oracles). LastTxid is the txid of the active header.
	ByTxid   map[uint64]State
	LastTxid uint64
	// MaybeTxid: a commit attempt failed (only on its last sync): its state may
	// be what a reopen shows. Used by fault checks.
	Maybe *State

	Viol []Violation
	Obs  []string // observation log (ids returned, error kinds)

	Stats    *StatsObserver
	Observer bool

	CheckAlloc   bool // C04 ownership oracle on every returned id
	ReadCheck    bool // verify all live pages after every transaction end
	Ops          int
	Dead         bool  // instance unusable (engine stops applying ops)
	LeakCheck    bool  // CheckDisk also reports pages that nobody owns
	ExtentCap    int64 // after a shrink: max(previous extent, new limit); 0 = no promise active
	OverflowUsed bool  // an overflow-enabled transaction ran since
	LastOpLog    int   // disk log length before the most recent operation (set by the replayer)
	Eager        bool  // let the background writer drain its queue after every operation (writer timing "eager")
	DiskCheck    bool  // after every successful commit decode the on-disk state independently (engine/diskfmt)
}

// StatsObserver records what the library reports to an Observer.
type StatsObserver struct {
	Open   txfile.FileStats
	Last   txfile.FileStats
	Begins int
	Closes int
}

// The observer is harness state: its own counters are not part of the program
// under test (go:norace), what the library reads to call it is.
//
//go:norace
func (o *StatsObserver) OnOpen(s txfile.FileStats) { o.Open, o.Last = s, s }

//go:norace
func (o *StatsObserver) OnTxBegin(readonly bool) { o.Begins++ }

//go:norace
func (o *StatsObserver) OnTxClose(f txfile.FileStats, tx txfile.TxStats) {
	o.Closes++
	if !tx.Readonly && tx.Commit {
		o.Last = f
	}
}

// New creates a fresh disk with the given configuration and opens it.
func New(cfg Cfg) (*Env, error) {
	e := &Env{Cfg: cfg, Opts: cfg.Options(), ReadCheck: true, CheckAlloc: true, Observer: true}
	e.Disk = simdisk.New("sim-"+cfg.Name, cfg.PageSize)
	e.M = State{Pages: map[uint64]Val{}}
	e.ByTxid = map[uint64]State{}
	if err := e.open(e.Opts); err != nil {
		return nil, err
	}
	e.recordCommitted()
	return e, nil
}

// Adopt wraps an existing disk image (crash/corruption checks): the model
// state is supplied by the caller.
func Adopt(cfg Cfg, disk *simdisk.Disk, m State) *Env {
	e := &Env{Cfg: cfg, Opts: cfg.Options(), ReadCheck: true, CheckAlloc: true, Observer: true}
	e.Disk = disk
	e.M = m.clone()
	e.ByTxid = map[uint64]State{}
	return e
}

// OpenWith opens the disk with explicit options.
func (e *Env) OpenWith(o txfile.Options) error { return e.open(o) }

// Open opens the adopted disk.
func (e *Env) Open() error { return e.open(e.Opts) }

func (e *Env) open(opts txfile.Options) error {
	if e.Observer {
		e.Stats = &StatsObserver{}
		opts.Observer = e.Stats
	}
	e.H = e.Disk.Open()
	f, err := txfile.VerifOpen(e.H, opts)
	if err != nil {
		e.F = nil
		return err
	}
	e.F = f
	return nil
}

func (e *Env) recordCommitted() {
	s := e.F.VerifSnapshot()
	e.LastTxid = s.Txid[s.MetaActive]
	e.ByTxid[e.LastTxid] = e.M.clone()
}

func (e *Env) violate(class, format string, args ...interface{}) {
	e.Viol = append(e.Viol, Violation{Class: class, Msg: fmt.Sprintf(format, args...)})
}

func (e *Env) obs(format string, args ...interface{}) {
	e.Obs = append(e.Obs, fmt.Sprintf(format, args...))
}

// word returns the 8 byte stamp of (page id, symbol, half).
func word(id uint64, sym uint8, half int) uint64 {
	return 0xC0DE<<48 | (id&0xFFFFFFFF)<<16 | uint64(sym)<<8 | uint64(half)
}

// FillHalf writes the pattern of (id, sym, half) into b (half a page).
func FillHalf(b []byte, id uint64, sym uint8, half int) {
	if sym == 0 {
		for i := range b {
			b[i] = 0
		}
		return
	}
	w := word(id, sym, half)
	for i := 0; i+8 <= len(b); i += 8 {
		binary.LittleEndian.PutUint64(b[i:], w)
	}
}

// PageBytes returns the expected contents of a page.
func PageBytes(pageSize int, id uint64, v Val) []byte {
	b := make([]byte, pageSize)
	FillHalf(b[:pageSize/2], id, v[0], 0)
	FillHalf(b[pageSize/2:], id, v[1], 1)
	return b
}

// Describe decodes page contents for diagnostics.
func Describe(b []byte) string {
	d := func(h []byte) string {
		if len(h) < 8 {
			return "short"
		}
		w := binary.LittleEndian.Uint64(h)
		uniform := true
		for i := 8; i+8 <= len(h); i += 8 {
			if binary.LittleEndian.Uint64(h[i:]) != w {
				uniform = false
				break
			}
		}
		if !uniform {
			return fmt.Sprintf("mixed(first=%#x)", w)
		}
		if w == 0 {
			return "zero"
		}
		if w>>48 == 0xC0DE {
			return fmt.Sprintf("page%d/sym%d/half%d", (w>>16)&0xFFFFFFFF, (w>>8)&0xFF, w&0xFF)
		}
		if h[0] == simdisk.Poison && h[1] == simdisk.Poison {
			return "POISON"
		}
		return fmt.Sprintf("other(%#x)", w)
	}
	return d(b[:len(b)/2]) + "|" + d(b[len(b)/2:])
}

func matches(b []byte, pageSize int, id uint64, v Val) bool {
	if len(b) != pageSize {
		return false
	}
	exp := PageBytes(pageSize, id, v)
	h := pageSize / 2
	if v[0] != Undef && !bytes.Equal(b[:h], exp[:h]) {
		return false
	}
	if v[1] != Undef && !bytes.Equal(b[h:], exp[h:]) {
		return false
	}
	return true
}

// Visible returns the ids visible to the running transaction (or the
// committed ids without one), ascending.
func (e *Env) Visible() []uint64 {
	if e.T == nil {
		return e.M.IDs()
	}
	var ids []uint64
	for id := range e.M.Pages {
		if !e.T.Freed[id] {
			ids = append(ids, id)
		}
	}
	for id := range e.T.New {
		if !e.T.Freed[id] {
			ids = append(ids, id)
		}
	}
	sort.Slice(ids, func(i, j int) bool { return ids[i] < ids[j] })
	return ids
}

// cur returns the value of a visible page as seen by the running transaction.
func (e *Env) cur(id uint64) Val {
	if e.T != nil {
		if v, ok := e.T.Writes[id]; ok {
			return v
		}
		if e.T.New[id] {
			return Val{Undef, Undef}
		}
	}
	return e.M.Pages[id]
}

// CheckDisk decodes the current disk image without the library and checks the
// partition of page ids against the live pages of model state m.
func (e *Env) CheckDisk(m State, when string) {
	st, err := diskfmt.Decode(e.Disk.Bytes(), e.Cfg.PageSize)
	if err != nil {
		e.violate("diskfmt/undecodable", "%s: the on-disk metadata cannot be decoded: %v", when, err)
		return
	}
	if st.Header.Root != m.Root {
		e.violate("diskfmt/root", "%s: the newest valid header has root %d, the model %d", when, st.Header.Root, m.Root)
	}
	for _, p := range st.Check(m.IDs()) {
		e.violate("diskfmt/partition", "%s: %s", when, p)
	}
	if len(st.Unowned) > 0 {
		e.violate("diskfmt/leak", "%s: pages %v lie below the file end (data end %d, meta end %d) but are neither live, on a free list, nor metadata", when, st.Unowned, st.Header.DataEnd, st.Header.MetaEnd)
	}
}

// ErrChain renders an error with all its causes.
func ErrChain(err error) string {
	var parts []string
	for err != nil && len(parts) < 8 {
		parts = append(parts, err.Error())
		if c, ok := err.(interface{ Cause() error }); ok {
			err = c.Cause()
		} else {
			err = errors.Unwrap(err)
		}
	}
	return strings.Join(parts, " <- ")
}

// ErrKind classifies an error for observations.
func ErrKind(err error) string {
	if err == nil {
		return "ok"
	}
	for _, k := range []txfile.ErrKind{txfile.OutOfMemory, txfile.TxFinished, txfile.TxReadOnly, txfile.InvalidOp,
		txfile.InvalidPageID, txfile.InvalidParam, txfile.InvalidMetaPage, txfile.InitFailed, txfile.InvalidConfig,
		txfile.InvalidFileSize, txfile.FileCreationFailed, txfile.TxCommitFail, txfile.TxRollbackFail, txfile.TxFailed, txfile.InternalError} {
		if txerr.Is(k, err) {
			return k.String()
		}
	}
	return "error"
}

// IsOOM reports whether err is an out-of-space condition.
func IsOOM(err error) bool { return err != nil && txerr.Is(txfile.OutOfMemory, err) }

// Try runs fn and converts a panic into a string (re-panicking the
// scheduler's abort signal).
func Try(fn func()) (panicked string) {
	defer func() {
		if r := recover(); r != nil {
			if sched.IsAbort(r) {
				panic(r)
			}
			panicked = fmt.Sprint(r)
			if os.Getenv("VERIF_STACK") != "" { // debugging aid: where did it panic
				panicked += "\n" + string(debug.Stack())
			}
		}
	}()
	fn()
	return ""
}

// allocView is the part of a snapshot that a fresh open of the same disk
// image must reproduce.
type allocView struct {
	DataEnd, MetaEnd uint64
	MetaTotal        uint
	DataFree         []txfile.VerifRegion
	MetaFree         []txfile.VerifRegion
	FreelistPages    []txfile.VerifRegion
	WALMapping       [][2]uint64
	WALMetaPages     []txfile.VerifRegion
	Root             uint64
	MaxPages         uint
}

// viewOf canonicalises one representation freedom: above the maximum size a
// trailing run of meta pages may be counted to the data range (pages moved to
// the meta area) or to the overflow area behind it, depending on whether the
// limit was lowered before or after the state was loaded. Both behave the
// same; the data end is reported below such a run.
func viewOf(s txfile.VerifSnapshot) allocView {
	if s.MaxPages > 0 && s.DataEnd > uint64(s.MaxPages) {
		meta := map[uint64]bool{}
		for _, l := range [][]txfile.VerifRegion{s.MetaFree, s.FreelistPages, s.WALMetaPages} {
			for _, r := range l {
				for k := uint64(0); k < uint64(r.Count); k++ {
					meta[r.ID+k] = true
				}
			}
		}
		for _, m := range s.WALMapping {
			meta[m[1]] = true
		}
		for s.DataEnd > uint64(s.MaxPages) && meta[s.DataEnd-1] {
			s.DataEnd--
		}
	}
	return allocView{DataEnd: s.DataEnd, MetaEnd: s.MetaEnd, MetaTotal: s.MetaTotal, DataFree: s.DataFree, MetaFree: s.MetaFree,
		FreelistPages: s.FreelistPages, WALMapping: s.WALMapping, WALMetaPages: s.WALMetaPages, Root: s.Root, MaxPages: s.MaxPages}
}

// CheckMemVsDisk compares the allocator and mapping state the open File works
// with against the state a second, fresh open of a copy of the current disk
// contents arrives at. Between transactions, with the background writer idle
// and no commit of unknown outcome, the two must be the same: the process
// "sees exactly the last committed state". Must run under the scheduler.
func (e *Env) CheckMemVsDisk(when string) {
	if e.F == nil || e.T != nil || e.Dead || e.Maybe != nil {
		return
	}
	ms := e.F.VerifSnapshot()
	mem := viewOf(ms)
	d := simdisk.FromImage("memvsdisk-"+e.Cfg.Name, e.Cfg.PageSize, e.Disk.Bytes())
	o := e.Opts
	o.Flags &^= txfile.FlagUpdMaxSize
	o.Observer = nil
	var f2 *txfile.File
	var err error
	if pn := Try(func() { f2, err = txfile.VerifOpen(d.Open(), o) }); pn != "" || err != nil {
		e.violate("mem-vs-disk/open", "%s: a fresh open of the current disk contents fails: %v %s", when, ErrChain(err), firstLineOf(pn))
		return
	}
	ds := f2.VerifSnapshot()
	disk := viewOf(ds)
	Try(func() { f2.Close() })
	if ds.Txid[ds.MetaActive] != ms.Txid[ms.MetaActive] {
		// A commit (of a transaction or of an open-time maintenance step) failed
		// in its final sync: its header is on disk, the process continues with
		// the previous state. Which of the two a later open sees is not known.
		return
	}
	a, _ := json.Marshal(mem)
	b, _ := json.Marshal(disk)
	if !bytes.Equal(a, b) {
		e.violate("mem-vs-disk/state", "%s: the open File works with %s, a fresh open of the same disk contents gives %s", when, a, b)
	}
}

func firstLineOf(s string) string {
	if i := strings.IndexByte(s, '\n'); i >= 0 {
		return s[:i]
	}
	return s
}
