// Package core holds what every check shares: tiers and deadlines, violation
// reporting with known-findings handling, replay files, evidence files.
package core

import (
	"bufio"
	"encoding/json"
	"fmt"
	"os"
	"path/filepath"
	"sort"
	"strconv"
	"strings"
	"sync"
	"time"
)

// Instrumented is "1" in the worker built from the instrumented overlay
// (set with -ldflags -X).
var Instrumented = "0"

// IsInstrumented reports whether the library was built with the scheduler shims.
func IsInstrumented() bool { return Instrumented == "1" }

// Root is the /verif directory.
var Root = func() string {
	if r := os.Getenv("VERIF_ROOT"); r != "" {
		return r
	}
	return "/verif"
}()

// Ctx is one check run.
type Ctx struct {
	shareN   int // runs started (FairShare)
	Prop     string
	Tier     string
	Seed     int64
	Level    string
	Start    time.Time
	Deadline time.Time // soft deadline of the exploration (zero: none)
	Full     time.Time // deadline of the whole run (Deadline may be narrowed to a share of it)
	Procs    int

	mu          sync.Mutex
	violClasses map[string]bool
	knownHit    map[string]bool
	Violations  int
	known       []finding
	Cov         map[string]interface{}
	Samples     []interface{}
	Assumptions []string
	Exhaustive  bool
	Caps        []string
	EngineErrs  int
	replayN     int
}

type finding struct {
	Prop, Class, Text string
}

// NewCtx prepares a run.
func NewCtx(prop, tier, level string) *Ctx {
	seed, _ := strconv.ParseInt(os.Getenv("VERIF_SEED"), 10, 64)
	c := &Ctx{Prop: prop, Tier: tier, Seed: seed, Level: level, Start: time.Now(),
		violClasses: map[string]bool{}, knownHit: map[string]bool{}, Cov: map[string]interface{}{}, Exhaustive: true}
	c.Procs = 16
	if v, err := strconv.Atoi(os.Getenv("VERIF_PROCS")); err == nil && v > 0 {
		c.Procs = v
	}
	c.loadKnown()
	os.MkdirAll(filepath.Join(Root, "replays", prop), 0o755)
	os.MkdirAll(filepath.Join(Root, "evidence"), 0o755)
	return c
}

// Quick reports whether this is the quick tier.
func (c *Ctx) Quick() bool { return c.Tier != "thorough" }

// SetBudget sets the soft deadline (VERIF_BUDGET_S overrides).
func (c *Ctx) SetBudget(d time.Duration) {
	if v, err := strconv.Atoi(os.Getenv("VERIF_BUDGET_S")); err == nil && v > 0 {
		d = time.Duration(v) * time.Second
	}
	c.Deadline = c.Start.Add(d)
	c.Full = c.Deadline
}

// Share narrows the deadline to d from now (never beyond the run's deadline):
// every configuration/seed of a check gets its own slice of the budget.
func (c *Ctx) Share(d time.Duration) {
	nd := time.Now().Add(d)
	if !c.Full.IsZero() && nd.After(c.Full) {
		nd = c.Full
	}
	c.Deadline = nd
}

// FairShare returns the slice of the budget for the next of `total` runs of a
// check: what is left of the budget (minus the part reserved for later phases,
// 1-frac of the whole) divided by the runs not yet started. Runs that finish
// early leave their time to the later ones.
func (c *Ctx) FairShare(total int, frac float64) time.Duration {
	left := total - c.shareN
	c.shareN++
	if left < 1 {
		left = 1
	}
	if c.Full.IsZero() {
		return 0
	}
	rem := time.Until(c.Full) - time.Duration((1-frac)*float64(c.Budget()))
	if rem < 0 {
		rem = 0
	}
	// most runs need far less than an equal share: a run may take up to 2.5 shares (never more than what is left)
	d := rem / time.Duration(left) * 5 / 2
	if d > rem {
		d = rem
	}
	return d
}

// Unshare restores the deadline of the whole run.
func (c *Ctx) Unshare() { c.Deadline = c.Full }

// Budget returns the total soft budget of the run.
func (c *Ctx) Budget() time.Duration {
	if c.Full.IsZero() {
		return 0
	}
	return c.Full.Sub(c.Start)
}

// Phase narrows the deadline to `d` from now (never beyond the run's own
// deadline) and returns a function restoring the previous deadline. Used to
// give every configuration/seed of a check its own share of the budget.
func (c *Ctx) Phase(d time.Duration) (restore func()) {
	old := c.Deadline
	nd := time.Now().Add(d)
	if !old.IsZero() && nd.After(old) {
		nd = old
	}
	c.Deadline = nd
	return func() { c.Deadline = old }
}

// Expired reports whether the soft deadline has passed.
func (c *Ctx) Expired() bool { return !c.Deadline.IsZero() && time.Now().After(c.Deadline) }

// Cap records that some bound or deadline cut the exploration short.
func (c *Ctx) Cap(format string, args ...interface{}) {
	c.mu.Lock()
	defer c.mu.Unlock()
	c.Exhaustive = false
	s := fmt.Sprintf(format, args...)
	for _, x := range c.Caps {
		if x == s {
			return
		}
	}
	c.Caps = append(c.Caps, s)
}

func (c *Ctx) loadKnown() {
	f, err := os.Open(filepath.Join(Root, "KNOWN_FINDINGS.txt"))
	if err != nil {
		return
	}
	defer f.Close()
	sc := bufio.NewScanner(f)
	for sc.Scan() {
		line := strings.TrimSpace(sc.Text())
		if !strings.HasPrefix(line, "finding:") {
			continue
		}
		var fd finding
		rest := strings.TrimSpace(strings.TrimPrefix(line, "finding:"))
		fields := strings.Fields(rest)
		var text []string
		for _, fl := range fields {
			switch {
			case strings.HasPrefix(fl, "property=") && fd.Prop == "":
				fd.Prop = strings.TrimPrefix(fl, "property=")
			case strings.HasPrefix(fl, "class=") && fd.Class == "":
				fd.Class = strings.TrimPrefix(fl, "class=")
			default:
				text = append(text, fl)
			}
		}
		fd.Text = strings.Join(text, " ")
		if fd.Prop == c.Prop && fd.Class != "" {
			c.known = append(c.known, fd)
		}
	}
}

// Log writes progress to stderr.
func (c *Ctx) Log(format string, args ...interface{}) {
	fmt.Fprintf(os.Stderr, "[%s %6.1fs] %s\n", c.Prop, time.Since(c.Start).Seconds(), fmt.Sprintf(format, args...))
}

// EngineError reports a failure of the machinery itself (never a property
// verdict). The run is marked non-exhaustive.
func (c *Ctx) EngineError(format string, args ...interface{}) {
	c.mu.Lock()
	c.EngineErrs++
	c.Exhaustive = false
	n := c.EngineErrs
	c.mu.Unlock()
	if n <= 20 {
		fmt.Printf("ENGINE-ERROR property=%s %s\n", c.Prop, strings.ReplaceAll(fmt.Sprintf(format, args...), "\n", " | "))
	}
}

// Violate reports a violation of class (deterministic string built from the
// violation's attributes). The first violation of each class writes a replay
// file and prints either VIOLATION or, if the class is listed in
// KNOWN_FINDINGS.txt, KNOWN-FINDING. Returns true if it was new.
func (c *Ctx) Violate(class, msg string, replay interface{}) bool {
	c.mu.Lock()
	defer c.mu.Unlock()
	class = strings.ReplaceAll(class, " ", "_")
	for _, k := range c.known {
		if k.Class == class {
			if !c.knownHit[class] {
				c.knownHit[class] = true
				fmt.Printf("KNOWN-FINDING: property=%s class=%s %s\n", c.Prop, class, k.Text)
			}
			return false
		}
	}
	if c.violClasses[class] {
		return false
	}
	c.violClasses[class] = true
	c.Violations++
	c.replayN++
	name := fmt.Sprintf("%s-%03d.json", c.Tier, c.replayN)
	path := filepath.Join(Root, "replays", c.Prop, name)
	doc := map[string]interface{}{"property": c.Prop, "class": class, "message": msg, "replay": replay}
	js, _ := json.MarshalIndent(doc, "", " ")
	os.WriteFile(path, js, 0o644)
	if c.Violations <= 25 {
		fmt.Printf("VIOLATION property=%s replay=%s class=%s %s\n", c.Prop, path, class, strings.ReplaceAll(msg, "\n", " | "))
	}
	return true
}

// AddSample keeps up to 8 sample cases for the evidence file.
func (c *Ctx) AddSample(s interface{}) {
	c.mu.Lock()
	defer c.mu.Unlock()
	if len(c.Samples) < 8 {
		c.Samples = append(c.Samples, s)
	}
}

// Add increments an integer coverage counter.
func (c *Ctx) Add(key string, n int) {
	c.mu.Lock()
	defer c.mu.Unlock()
	v, _ := c.Cov[key].(int)
	c.Cov[key] = v + n
}

// Set sets a coverage value.
func (c *Ctx) Set(key string, v interface{}) {
	c.mu.Lock()
	defer c.mu.Unlock()
	c.Cov[key] = v
}

// Get returns an integer coverage counter.
func (c *Ctx) Get(key string) int {
	c.mu.Lock()
	defer c.mu.Unlock()
	v, _ := c.Cov[key].(int)
	return v
}

// Finish writes the evidence file and returns the process exit code.
func (c *Ctx) Finish() int {
	c.mu.Lock()
	defer c.mu.Unlock()
	cov := c.Cov
	cov["exhaustive"] = c.Exhaustive && c.EngineErrs == 0
	if len(c.Caps) > 0 {
		sort.Strings(c.Caps)
		cov["caps_hit"] = c.Caps
	}
	if len(c.Samples) == 0 {
		c.Samples = append(c.Samples, "no sample recorded")
	}
	cov["samples"] = c.Samples
	cov["engine_errors"] = c.EngineErrs
	var kf []string
	for k := range c.knownHit {
		kf = append(kf, k)
	}
	sort.Strings(kf)
	if kf == nil {
		kf = []string{}
	}
	cov["known_findings_hit"] = kf
	wall := time.Since(c.Start).Seconds()
	if c.Assumptions == nil {
		c.Assumptions = []string{}
	}
	ev := map[string]interface{}{
		"property_id": c.Prop,
		"tier":        c.Tier,
		"seed":        c.Seed,
		"level":       c.Level,
		"coverage":    cov,
		"assumptions": c.Assumptions,
		"wall_s":      wall,
		"violations":  c.Violations,
	}
	js, _ := json.MarshalIndent(ev, "", " ")
	evdir := filepath.Join(Root, "evidence")
	if d := os.Getenv("VERIF_EVIDENCE_DIR"); d != "" { // mutation runs keep the committed evidence untouched
		evdir = d
		os.MkdirAll(evdir, 0o755)
	}
	path := filepath.Join(evdir, c.Prop+".json")
	if err := os.WriteFile(path, js, 0o644); err != nil {
		fmt.Printf("ENGINE-ERROR property=%s cannot write evidence: %v\n", c.Prop, err)
		return 2
	}
	fmt.Fprintf(os.Stderr, "[%s] done in %.1fs violations=%d engine_errors=%d exhaustive=%v evidence=%s\n",
		c.Prop, wall, c.Violations, c.EngineErrs, cov["exhaustive"], path)
	if c.Violations > 0 {
		return 1
	}
	if c.EngineErrs > 0 {
		return 2
	}
	return 0
}
