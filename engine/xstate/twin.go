package xstate

import (
	"encoding/json"
	"fmt"
	"strings"
	"time"

	"verif/engine/core"
	"verif/engine/pagedrv"
	"verif/engine/par"
)

// TwinTask compares two histories that must lead to the same logical file:
// PathA and PathB are replayed on fresh instances, their logical states are
// compared, and every continuation is applied to both and must produce the
// same observations and the same logical state again (a differential oracle
// with no hand-written expected values).
type TwinTask struct {
	Type   string         `json:"type"`
	Cfg    string         `json:"cfg"`
	PathA  []pagedrv.Op   `json:"path_a"`
	PathB  []pagedrv.Op   `json:"path_b"`
	Conts  [][]pagedrv.Op `json:"conts"`
	Class  string         `json:"class"`
	Ignore []string       `json:"ignore,omitempty"` // Logical fields not compared
	Flags  []string       `json:"flags"`
}

// TwinResult is the answer to a TwinTask.
type TwinResult struct {
	EngineError string              `json:"engine_error,omitempty"`
	Viol        []pagedrv.Violation `json:"viol,omitempty"`
	Compared    int                 `json:"compared"`
}

type twinRun struct {
	log  pagedrv.Logical
	obs  []string
	viol []pagedrv.Violation
	dead bool
}

func twinReplay(cfg pagedrv.Cfg, path, cont []pagedrv.Op, flags []string) (twinRun, error) {
	var r twinRun
	env, sv, err := replay(cfg, path, nil, flags, func(e *pagedrv.Env) {
		if e.Dead {
			r.dead = true
			return
		}
		e.Viol = nil
		n := len(e.Obs)
		for _, op := range cont {
			e.ApplyIfEnabled(op)
		}
		if e.Dead || e.F == nil {
			r.dead = true
		} else {
			r.log = e.Logical()
		}
		r.obs = append([]string(nil), e.Obs[n:]...)
	})
	if err != nil {
		return r, err
	}
	r.viol = append(env.Viol, sv...)
	if len(sv) > 0 {
		r.dead = true
	}
	return r, nil
}

func maskLogical(l pagedrv.Logical, ignore []string) pagedrv.Logical {
	for _, f := range ignore {
		switch f {
		case "DataEnd":
			l.DataEnd = 0
		case "MetaEnd":
			l.MetaEnd = 0
		case "Stats":
			l.Stats = pagedrv.Logical{}.Stats
		case "MaxPages":
			l.MaxPages = 0
			l.Stats.MaxSize = 0
		}
	}
	return l
}

// HandleTwin is the child side of TwinTask.
func HandleTwin(raw []byte) interface{} {
	var t TwinTask
	if err := json.Unmarshal(raw, &t); err != nil {
		return TwinResult{EngineError: err.Error()}
	}
	cfg, ok := pagedrv.CfgByName(t.Cfg)
	if !ok {
		return TwinResult{EngineError: "unknown cfg " + t.Cfg}
	}
	var res TwinResult
	conts := append([][]pagedrv.Op{nil}, t.Conts...)
	for _, k := range conts {
		a, err := twinReplay(cfg, t.PathA, k, t.Flags)
		if err != nil {
			return TwinResult{EngineError: err.Error()}
		}
		b, err := twinReplay(cfg, t.PathB, k, t.Flags)
		if err != nil {
			return TwinResult{EngineError: err.Error()}
		}
		res.Compared++
		ks := pagedrv.PathString(k)
		for _, v := range b.viol {
			res.Viol = append(res.Viol, pagedrv.Violation{Class: t.Class + "/" + v.Class, Msg: fmt.Sprintf("continuation [%s] on the second twin: %s", ks, v.Msg)})
		}
		if len(a.viol) > 0 && len(b.viol) == 0 {
			// the reference twin itself misbehaves: reported by the check that owns that path
			continue
		}
		if a.dead || b.dead {
			if a.dead != b.dead {
				res.Viol = append(res.Viol, pagedrv.Violation{Class: t.Class + "/usable", Msg: fmt.Sprintf("continuation [%s]: one twin is unusable (A dead=%v, B dead=%v)", ks, a.dead, b.dead)})
			}
			continue
		}
		if oa, ob := strings.Join(a.obs, " | "), strings.Join(b.obs, " | "); oa != ob {
			res.Viol = append(res.Viol, pagedrv.Violation{Class: t.Class + "/observations", Msg: fmt.Sprintf("continuation [%s] observed differently: A: %s  B: %s", ks, oa, ob)})
			continue
		}
		if d := pagedrv.DiffLogical(maskLogical(a.log, t.Ignore), maskLogical(b.log, t.Ignore)); d != "" {
			cl := t.Class + "/state"
			if len(k) > 0 {
				cl = t.Class + "/state-after-continuation"
			}
			res.Viol = append(res.Viol, pagedrv.Violation{Class: cl, Msg: fmt.Sprintf("after continuation [%s] the twins differ: %s", ks, d)})
		}
	}
	return res
}

// RunTwins executes twin tasks; violations are reported through ctx.
func RunTwins(ctx *core.Ctx, pool *par.Pool, twins []TwinTask) (compared int) {
	tasks := make([][]byte, len(twins))
	for i := range twins {
		twins[i].Type = "twin"
		tasks[i], _ = json.Marshal(twins[i])
	}
	skipped := 0
	pool.Run(tasks, ctx.Deadline, 10*time.Minute, func(i int, raw []byte, terr *par.TaskError) {
		t := twins[i]
		if terr != nil {
			ctx.EngineError("twin %s: %s %s", t.Cfg, terr.Msg, terr.Stderr)
			return
		}
		var r TwinResult
		if err := json.Unmarshal(raw, &r); err != nil {
			ctx.EngineError("bad twin result: %v", err)
			return
		}
		if r.EngineError != "" {
			ctx.EngineError("twin: %s", r.EngineError)
			return
		}
		compared += r.Compared
		for _, v := range r.Viol {
			ctx.Violate(v.Class, fmt.Sprintf("cfg %s A=[%s] B=[%s]: %s", t.Cfg, pagedrv.PathString(t.PathA), pagedrv.PathString(t.PathB), v.Msg),
				map[string]interface{}{"kind": "twin", "task": t})
		}
	}, func(int) { skipped++ })
	if skipped > 0 {
		ctx.Cap("deadline reached: %d twin comparisons skipped", skipped)
	}
	return compared
}

// ReplayTwin re-executes a twin replay document.
func ReplayTwin(raw json.RawMessage) []string {
	var d struct {
		Task TwinTask `json:"task"`
	}
	if err := json.Unmarshal(raw, &d); err != nil {
		return []string{"violation: bad replay document: " + err.Error()}
	}
	fmt.Printf("cfg %s\n  A: %s\n  B: %s\n", d.Task.Cfg, pagedrv.PathString(d.Task.PathA), pagedrv.PathString(d.Task.PathB))
	js, _ := json.Marshal(d.Task)
	r := HandleTwin(js).(TwinResult)
	var out []string
	if r.EngineError != "" {
		out = append(out, "violation: engine error: "+r.EngineError)
	}
	for _, v := range r.Viol {
		out = append(out, fmt.Sprintf("violation: class=%s %s", v.Class, v.Msg))
	}
	return out
}
