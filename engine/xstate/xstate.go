// Package xstate is the explicit-state explorer for sequential histories of
// the page API: breadth-first search over an operation alphabet, states
// identified by pagedrv.Env.Key, successors produced by replaying the recorded
// shortest path on a fresh instance plus one operation (the library's objects
// cannot be cloned). The coordinator deduplicates; worker processes execute.
package xstate

import (
	"crypto/sha256"
	"encoding/hex"
	"encoding/json"
	"fmt"
	"strings"
	"time"

	"verif/engine/core"
	"verif/engine/pagedrv"
	"verif/engine/par"
	"verif/engine/sched"
)

// ExpandTask asks a child to replay Path and try every operation of Alphabet
// that is enabled at its end.
type ExpandTask struct {
	Type     string       `json:"type"`
	Cfg      string       `json:"cfg"`
	Path     []pagedrv.Op `json:"path"`
	Alphabet []pagedrv.Op `json:"alphabet"`
	Key      string       `json:"key"`             // expected key at the end of Path ("" for the root)
	Flags    []string     `json:"flags"`           // per-check behaviour switches understood by the child
	Judge    bool         `json:"judge,omitempty"` // also report what the oracles say about Path itself (root of a seeded search)
}

// Succ is one explored transition.
type Succ struct {
	Op    pagedrv.Op          `json:"op"`
	Key   string              `json:"key"`
	Viol  []pagedrv.Violation `json:"viol,omitempty"`
	Dead  bool                `json:"dead,omitempty"`
	Quiet bool                `json:"quiet,omitempty"` // no open transaction after the op
	IOSig string              `json:"iosig,omitempty"`
	Ops   int                 `json:"ops,omitempty"`
	Log   string              `json:"log,omitempty"` // logical state (JSON) when quiet
	Obs   []string            `json:"obs,omitempty"` // observations of the last operation
}

// ExpandResult is the answer to an ExpandTask.
type ExpandResult struct {
	EngineError string `json:"engine_error,omitempty"`
	Key         string `json:"key"`
	Log         string `json:"log,omitempty"`
	Succ        []Succ `json:"succ"`
	// PathViol: violations raised while replaying Path (only with Judge)
	PathViol []pagedrv.Violation `json:"path_viol,omitempty"`
}

// Run executes fn as the main thread under the scheduler (instrumented build)
// or directly (plain build) and folds scheduler-level failures into
// violations.
func Run(fn func()) []pagedrv.Violation {
	if !core.IsInstrumented() {
		fn()
		return nil
	}
	res := sched.Run(nil, sched.Options{}, fn)
	return SchedViolations(res)
}

// SchedViolations converts deadlock / livelock / stray panics into violations.
func SchedViolations(res *sched.Result) []pagedrv.Violation {
	var v []pagedrv.Violation
	if res.Deadlock {
		v = append(v, pagedrv.Violation{Class: "deadlock", Msg: "deadlock: " + strings.Join(res.Blocked, "; ")})
	}
	if res.Livelock {
		v = append(v, pagedrv.Violation{Class: "livelock", Msg: fmt.Sprintf("no progress within %d scheduling points: %s", res.Steps, strings.Join(res.Blocked, "; "))})
	}
	for _, p := range res.Panics {
		v = append(v, pagedrv.Violation{Class: "panic/thread", Msg: fmt.Sprintf("panic in thread %s: %s\n%s", p.Thread, p.Value, p.Stack)})
	}
	return v
}

// Hook lets a check add per-transition oracles in the child: it runs after
// the last operation on the live instance (it must not change state that a
// later Key() observes, or must be requested through a separate replay).
type Hook func(e *pagedrv.Env, last pagedrv.Op)

// Hooks is the registry of child-side hooks by flag name.
var Hooks = map[string]Hook{}

// Setup lets a check configure a fresh Env in the child before the replay.
var Setups = map[string]func(e *pagedrv.Env){}

// replay runs path (+ extra) on a fresh instance under the scheduler.
func replay(cfg pagedrv.Cfg, path []pagedrv.Op, extra *pagedrv.Op, flags []string, after func(e *pagedrv.Env)) (*pagedrv.Env, []pagedrv.Violation, error) {
	var env *pagedrv.Env
	var err error
	sv := Run(func() {
		env, err = pagedrv.New(cfg)
		if err != nil {
			return
		}
		for _, f := range flags {
			if s := Setups[f]; s != nil {
				s(env)
			}
		}
		for _, op := range path {
			if env.Dead {
				return
			}
			env.Apply(op)
		}
		if extra != nil && !env.Dead {
			env.Viol = nil // only the last transition is judged here
			env.LastOpLog = env.Disk.LogLen()
			env.Apply(*extra)
			for _, f := range flags {
				if h := Hooks[f]; h != nil && !env.Dead {
					h(env, *extra)
				}
			}
		}
		if after != nil {
			after(env)
		}
	})
	return env, sv, err
}

// HandleExpand is the child side of ExpandTask.
func HandleExpand(raw []byte) interface{} {
	var t ExpandTask
	if err := json.Unmarshal(raw, &t); err != nil {
		return ExpandResult{EngineError: err.Error()}
	}
	cfg, ok := pagedrv.CfgByName(t.Cfg)
	if !ok {
		return ExpandResult{EngineError: "unknown cfg " + t.Cfg}
	}
	var res ExpandResult
	var enabled []pagedrv.Op
	env0, sv, err := replay(cfg, t.Path, nil, t.Flags, func(e *pagedrv.Env) {
		if e.Dead {
			return
		}
		if t.Judge && len(t.Path) > 0 {
			for _, f := range t.Flags {
				if h := Hooks[f]; h != nil {
					h(e, t.Path[len(t.Path)-1])
				}
			}
		}
		res.Key = e.Key()
		if e.T == nil && e.F != nil {
			res.Log = e.Logical().String()
		}
		for _, op := range t.Alphabet {
			if e.Enabled(op) {
				enabled = append(enabled, op)
			}
		}
	})
	if err != nil {
		return ExpandResult{EngineError: "cannot create file: " + err.Error()}
	}
	if t.Judge && env0 != nil {
		res.PathViol = append(append(res.PathViol, env0.Viol...), sv...)
		if len(res.PathViol) > 0 {
			return res
		}
	}
	if len(sv) > 0 {
		return ExpandResult{EngineError: "replay of an already explored path failed at scheduler level: " + sv[0].Msg}
	}
	if t.Key != "" && res.Key != t.Key {
		return ExpandResult{EngineError: fmt.Sprintf("replay diverged: key %s, expected %s, path %s", res.Key, t.Key, pagedrv.PathString(t.Path))}
	}
	for _, op := range enabled {
		op := op
		var s Succ
		s.Op = op
		env, sv, err := replay(cfg, t.Path, &op, t.Flags, func(e *pagedrv.Env) {
			s.Dead = e.Dead
			s.Quiet = e.T == nil
			if !e.Dead {
				s.Key = e.Key()
				if s.Quiet && e.F != nil {
					s.Log = e.Logical().String()
				}
				if e.Disk.LogLen() > e.LastOpLog {
					s.IOSig = e.IOSig()
				}
			}
		})
		if err != nil {
			return ExpandResult{EngineError: err.Error()}
		}
		s.Viol = append(env.Viol, sv...)
		if len(sv) > 0 {
			s.Dead = true
		}
		res.Succ = append(res.Succ, s)
	}
	return res
}

// Node is a state of the search graph.
type Node struct {
	Key     string
	Parent  *Node
	Op      pagedrv.Op
	Depth   int
	Quiet   bool
	Log     string // key of the logical state when quiet
	NoStats string // same with FileStats masked
}

// LogKey is what a Node keeps of a logical state (the full JSON of ~1 KiB per
// state would dominate the coordinator's memory in deep searches).
func LogKey(log string) string {
	if log == "" {
		return ""
	}
	h := sha256.Sum256([]byte(log))
	return hex.EncodeToString(h[:12])
}

func noStats(log string) string {
	if log == "" {
		return ""
	}
	var l pagedrv.Logical
	if json.Unmarshal([]byte(log), &l) != nil {
		return ""
	}
	l.Stats = pagedrv.Logical{}.Stats
	return LogKey(l.String())
}

// QuietAncestor returns the nearest ancestor (or n itself) without an open
// transaction.
func (n *Node) QuietAncestor() *Node {
	for x := n; x != nil; x = x.Parent {
		if x.Quiet || x.Parent == nil {
			return x
		}
	}
	return nil
}

// Path returns the operation list leading to n.
func (n *Node) Path() []pagedrv.Op {
	var p []pagedrv.Op
	for x := n; x != nil && x.Parent != nil; x = x.Parent {
		p = append(p, x.Op)
	}
	for i, j := 0, len(p)-1; i < j; i, j = i+1, j-1 {
		p[i], p[j] = p[j], p[i]
	}
	return p
}

// Spec describes one search.
type Spec struct {
	Seed []pagedrv.Op // history executed before the search starts (non-initial start state); must end without an open transaction
	// Seeds: several start states searched together (one frontier, shared
	// duplicate detection); used instead of Seed.
	Seeds     [][]pagedrv.Op
	Cfg       pagedrv.Cfg
	Alphabet  []pagedrv.Op
	MaxDepth  int
	MaxStates int
	Flags     []string
	// OnTransition is called in the coordinator for every explored transition.
	OnTransition func(from *Node, s *Succ, isNew bool, to *Node)
	// OnLevel is called after each completed level with the new nodes.
	OnLevel func(depth int, fresh []*Node)
}

// Stats of one search.
type Stats struct {
	States, Transitions, Depth int
	Closed                     bool // frontier became empty: reachable set complete for this alphabet
	Levels                     []int
}

// BFS runs the search. Violations are reported through ctx.
func BFS(ctx *core.Ctx, pool *par.Pool, spec Spec) Stats {
	var st Stats
	mkRoot := func(seed []pagedrv.Op) *Node {
		root := &Node{}
		for _, op := range seed { // the seed is part of every path (replay documents stay self-contained)
			root = &Node{Parent: root, Op: op}
		}
		return root
	}
	seen := map[string]*Node{}
	roots := map[*Node]bool{}
	var frontier []*Node
	if len(spec.Seeds) > 0 {
		for _, sd := range spec.Seeds {
			r := mkRoot(sd)
			roots[r] = true
			frontier = append(frontier, r)
		}
	} else {
		r := mkRoot(spec.Seed)
		roots[r] = true
		frontier = []*Node{r}
	}
	first := true
	for depth := 0; len(frontier) > 0; depth++ {
		if spec.MaxDepth > 0 && depth >= spec.MaxDepth {
			ctx.Set("bound_"+spec.Cfg.Name, fmt.Sprintf("all histories of at most %d operations over the alphabet (%d states at the bound unexpanded)", spec.MaxDepth, len(frontier)))
			break
		}
		if ctx.Expired() {
			ctx.Cap("cfg %s: deadline reached at depth %d (%d frontier states unexpanded)", spec.Cfg.Name, depth, len(frontier))
			break
		}
		tasks := make([][]byte, len(frontier))
		for i, n := range frontier {
			t := ExpandTask{Type: "expand", Cfg: spec.Cfg.Name, Path: n.Path(), Alphabet: spec.Alphabet, Key: n.Key, Flags: spec.Flags,
				Judge: first && roots[n] && n.Parent != nil}
			tasks[i], _ = json.Marshal(t)
		}
		var next []*Node
		skipped := 0
		pool.Run(tasks, ctx.Deadline, 10*time.Minute, func(i int, raw []byte, terr *par.TaskError) {
			from := frontier[i]
			if terr != nil {
				ctx.EngineError("expand %s [%s]: %s %s", spec.Cfg.Name, pagedrv.PathString(from.Path()), terr.Msg, terr.Stderr)
				return
			}
			var r ExpandResult
			if err := json.Unmarshal(raw, &r); err != nil {
				ctx.EngineError("bad child result: %v", err)
				return
			}
			if r.EngineError != "" {
				ctx.EngineError("%s", r.EngineError)
				return
			}
			for _, v := range r.PathViol {
				ctx.Violate(v.Class, fmt.Sprintf("cfg %s after [%s] (seed history of this search): %s", spec.Cfg.Name, pagedrv.PathString(from.Path()), v.Msg),
					map[string]interface{}{"kind": "path", "cfg": spec.Cfg.Name, "path": from.Path(), "flags": spec.Flags})
			}
			if first && roots[from] {
				from.Key = r.Key
				from.Quiet = true
				from.Log = LogKey(r.Log)
				from.NoStats = noStats(r.Log)
				if _, dup := seen[r.Key]; !dup {
					seen[r.Key] = from
					st.States++
				}
			}
			for k := range r.Succ {
				s := &r.Succ[k]
				st.Transitions++
				path := append(from.Path(), s.Op)
				for _, v := range s.Viol {
					ctx.Violate(v.Class, fmt.Sprintf("cfg %s after [%s]: %s", spec.Cfg.Name, pagedrv.PathString(path), v.Msg),
						map[string]interface{}{"kind": "path", "cfg": spec.Cfg.Name, "path": path, "flags": spec.Flags})
				}
				isNew := false
				var to *Node
				if !s.Dead && s.Key != "" {
					if ex, ok := seen[s.Key]; ok {
						to = ex
					} else {
						n := &Node{Key: s.Key, Parent: from, Op: s.Op, Depth: from.Depth + 1, Quiet: s.Quiet, Log: LogKey(s.Log), NoStats: noStats(s.Log)}
						seen[s.Key] = n
						next = append(next, n)
						st.States++
						isNew = true
						to = n
					}
				}
				if spec.OnTransition != nil {
					spec.OnTransition(from, s, isNew, to)
				}
			}
		}, func(i int) { skipped++ })
		first = false
		if skipped > 0 {
			ctx.Cap("cfg %s: deadline reached inside depth %d (%d states unexpanded)", spec.Cfg.Name, depth, skipped)
		}
		st.Depth = depth + 1
		st.Levels = append(st.Levels, len(next))
		if spec.OnLevel != nil {
			spec.OnLevel(depth+1, next)
		}
		ctx.Log("cfg %s depth %d: %d new states, %d total, %d transitions", spec.Cfg.Name, depth+1, len(next), st.States, st.Transitions)
		frontier = next
		maxStates := spec.MaxStates
		if maxStates == 0 {
			maxStates = 600000 // memory guard of the coordinator; reported as a cap when hit
		}
		if st.States >= maxStates && len(frontier) > 0 {
			spec.MaxStates = maxStates
			ctx.Cap("cfg %s: state bound %d reached at depth %d", spec.Cfg.Name, spec.MaxStates, depth+1)
			break
		}
		if skipped > 0 {
			break
		}
	}
	st.Closed = len(frontier) == 0
	return st
}

// PathDoc is the replay document of a path violation.
type PathDoc struct {
	Kind  string       `json:"kind"`
	Cfg   string       `json:"cfg"`
	Path  []pagedrv.Op `json:"path"`
	Flags []string     `json:"flags"`
}

// ReplayPath re-executes a path replay document once, without the explorer,
// judging every operation, and returns trace + violations as text lines
// (violation lines start with "violation:").
func ReplayPath(raw json.RawMessage) []string {
	var d PathDoc
	if err := json.Unmarshal(raw, &d); err != nil {
		return []string{"violation: bad replay document: " + err.Error()}
	}
	cfg, ok := pagedrv.CfgByName(d.Cfg)
	if !ok {
		return []string{"violation: unknown cfg " + d.Cfg}
	}
	fmt.Printf("cfg %s path: %s\n", d.Cfg, pagedrv.PathString(d.Path))
	var out []string
	var last *pagedrv.Op
	path := d.Path
	if len(path) > 0 {
		last = &path[len(path)-1]
		path = path[:len(path)-1]
	}
	env, sv, err := replay(cfg, path, last, d.Flags, nil)
	if err != nil {
		return []string{"violation: cannot create file: " + err.Error()}
	}
	for _, o := range env.Obs {
		fmt.Println("  obs:", o)
	}
	for _, v := range append(env.Viol, sv...) {
		out = append(out, fmt.Sprintf("violation: class=%s %s", v.Class, v.Msg))
	}
	return out
}

// ProbeTask asks a child to replay Path on a fresh instance and then run a
// named probe on it (probes may change the instance: it is thrown away).
type ProbeTask struct {
	Type  string          `json:"type"`
	Cfg   string          `json:"cfg"`
	Path  []pagedrv.Op    `json:"path"`
	Probe string          `json:"probe"`
	Args  json.RawMessage `json:"args,omitempty"`
	Flags []string        `json:"flags"`
}

// ProbeResult is the answer to a ProbeTask.
type ProbeResult struct {
	EngineError string                 `json:"engine_error,omitempty"`
	Viol        []pagedrv.Violation    `json:"viol,omitempty"`
	Info        map[string]interface{} `json:"info,omitempty"`
}

// Probe runs on a replayed instance.
type Probe func(e *pagedrv.Env, args json.RawMessage, info map[string]interface{})

// Probes is the registry of child-side probes.
var Probes = map[string]Probe{}

// HandleProbe is the child side of ProbeTask.
func HandleProbe(raw []byte) interface{} {
	var t ProbeTask
	if err := json.Unmarshal(raw, &t); err != nil {
		return ProbeResult{EngineError: err.Error()}
	}
	cfg, ok := pagedrv.CfgByName(t.Cfg)
	if !ok {
		return ProbeResult{EngineError: "unknown cfg " + t.Cfg}
	}
	p := Probes[t.Probe]
	if p == nil {
		return ProbeResult{EngineError: "unknown probe " + t.Probe}
	}
	res := ProbeResult{Info: map[string]interface{}{}}
	env, sv, err := replay(cfg, t.Path, nil, t.Flags, func(e *pagedrv.Env) {
		if e.Dead {
			return
		}
		e.Viol = nil
		p(e, t.Args, res.Info)
	})
	if err != nil {
		return ProbeResult{EngineError: err.Error()}
	}
	res.Viol = append(env.Viol, sv...)
	return res
}

// RunProbes runs one probe for each node; onResult is called in the
// coordinator. Violations are reported through ctx with a replay document.
func RunProbes(ctx *core.Ctx, pool *par.Pool, cfg pagedrv.Cfg, nodes []*Node, probe string, args interface{}, flags []string,
	onResult func(n *Node, r *ProbeResult)) {
	if len(nodes) == 0 {
		return
	}
	argRaw, _ := json.Marshal(args)
	tasks := make([][]byte, len(nodes))
	for i, n := range nodes {
		tasks[i], _ = json.Marshal(ProbeTask{Type: "probe", Cfg: cfg.Name, Path: n.Path(), Probe: probe, Args: argRaw, Flags: flags})
	}
	skipped := 0
	pool.Run(tasks, ctx.Deadline, 10*time.Minute, func(i int, raw []byte, terr *par.TaskError) {
		n := nodes[i]
		if terr != nil {
			ctx.EngineError("probe %s %s [%s]: %s %s", probe, cfg.Name, pagedrv.PathString(n.Path()), terr.Msg, terr.Stderr)
			return
		}
		var r ProbeResult
		if err := json.Unmarshal(raw, &r); err != nil {
			ctx.EngineError("bad probe result: %v", err)
			return
		}
		if r.EngineError != "" {
			ctx.EngineError("probe %s: %s", probe, r.EngineError)
			return
		}
		for _, v := range r.Viol {
			ctx.Violate(v.Class, fmt.Sprintf("cfg %s after [%s], probe %s: %s", cfg.Name, pagedrv.PathString(n.Path()), probe, v.Msg),
				map[string]interface{}{"kind": "probe", "cfg": cfg.Name, "path": n.Path(), "probe": probe, "args": args, "flags": flags})
		}
		if onResult != nil {
			onResult(n, &r)
		}
	}, func(int) { skipped++ })
	if skipped > 0 {
		ctx.Cap("cfg %s: deadline reached, probe %s skipped for %d states", cfg.Name, probe, skipped)
	}
}

// ReplayDoc re-executes a "path" or "probe" replay document.
func ReplayDoc(raw json.RawMessage) []string {
	var hdr struct {
		Kind string `json:"kind"`
	}
	json.Unmarshal(raw, &hdr)
	if hdr.Kind == "twin" {
		return ReplayTwin(raw)
	}
	if hdr.Kind != "probe" {
		return ReplayPath(raw)
	}
	var d struct {
		Cfg   string          `json:"cfg"`
		Path  []pagedrv.Op    `json:"path"`
		Probe string          `json:"probe"`
		Args  json.RawMessage `json:"args"`
		Flags []string        `json:"flags"`
	}
	if err := json.Unmarshal(raw, &d); err != nil {
		return []string{"violation: bad replay document: " + err.Error()}
	}
	fmt.Printf("cfg %s path: %s ; probe %s %s\n", d.Cfg, pagedrv.PathString(d.Path), d.Probe, d.Args)
	t, _ := json.Marshal(ProbeTask{Type: "probe", Cfg: d.Cfg, Path: d.Path, Probe: d.Probe, Args: d.Args, Flags: d.Flags})
	r := HandleProbe(t).(ProbeResult)
	var out []string
	if r.EngineError != "" {
		out = append(out, "violation: engine error: "+r.EngineError)
	}
	for k, v := range r.Info {
		fmt.Printf("  info: %s=%v\n", k, v)
	}
	for _, v := range r.Viol {
		out = append(out, fmt.Sprintf("violation: class=%s %s", v.Class, v.Msg))
	}
	return out
}

// Replay replays path (+ extra) on a fresh instance (exported for checks with
// their own task types).
func Replay(cfg pagedrv.Cfg, path []pagedrv.Op, extra *pagedrv.Op, flags []string, after func(e *pagedrv.Env)) (*pagedrv.Env, []pagedrv.Violation, error) {
	return replay(cfg, path, extra, flags, after)
}

// ObsTask asks a child to replay paths and report their API-level
// observations (instrumentation conformance: the same task is run on the
// instrumented and on the plain build and the answers must be identical).
type ObsTask struct {
	Type  string         `json:"type"`
	Cfg   string         `json:"cfg"`
	Paths [][]pagedrv.Op `json:"paths"`
}

// ObsResult is the answer.
type ObsResult struct {
	EngineError string   `json:"engine_error,omitempty"`
	Obs         []string `json:"obs"` // one line per path
}

// HandleObs is the child side of ObsTask.
func HandleObs(raw []byte) interface{} {
	var t ObsTask
	if err := json.Unmarshal(raw, &t); err != nil {
		return ObsResult{EngineError: err.Error()}
	}
	cfg, ok := pagedrv.CfgByName(t.Cfg)
	if !ok {
		return ObsResult{EngineError: "unknown cfg " + t.Cfg}
	}
	var res ObsResult
	for _, p := range t.Paths {
		line := ""
		env, sv, err := replay(cfg, p, nil, nil, func(e *pagedrv.Env) {
			if !e.Dead && e.F != nil && e.T == nil {
				l := e.Logical()
				line = fmt.Sprintf("free=%v end=%d/%d meta=%d root=%d stats=%+v", l.DataFree, l.DataEnd, l.MetaEnd, l.MetaTotal, l.Root, l.Stats)
			}
		})
		if err != nil {
			return ObsResult{EngineError: err.Error()}
		}
		var vc []string
		for _, v := range append(env.Viol, sv...) {
			vc = append(vc, v.Class)
		}
		res.Obs = append(res.Obs, strings.Join(env.Obs, ",")+" | "+line+" | viol="+strings.Join(vc, ","))
	}
	return res
}

// Conformance replays the given paths on the plain (uninstrumented) build and
// on the instrumented build and compares the observations. A disagreement is
// an engine error (the instrumentation changed behaviour), never a verdict.
func Conformance(ctx *core.Ctx, pool, plain *par.Pool, cfg pagedrv.Cfg, paths [][]pagedrv.Op) int {
	if plain == nil || len(paths) == 0 {
		return 0
	}
	const batch = 40
	var tasks [][]byte
	var ranges [][2]int
	for i := 0; i < len(paths); i += batch {
		j := i + batch
		if j > len(paths) {
			j = len(paths)
		}
		b, _ := json.Marshal(ObsTask{Type: "obs", Cfg: cfg.Name, Paths: paths[i:j]})
		tasks = append(tasks, b)
		ranges = append(ranges, [2]int{i, j})
	}
	collect := func(p *par.Pool) []string {
		out := make([]string, len(paths))
		p.Run(tasks, time.Time{}, 10*time.Minute, func(i int, raw []byte, terr *par.TaskError) {
			if terr != nil {
				ctx.EngineError("conformance: %s %s", terr.Msg, terr.Stderr)
				return
			}
			var r ObsResult
			if err := json.Unmarshal(raw, &r); err != nil || r.EngineError != "" {
				ctx.EngineError("conformance: %v %s", err, r.EngineError)
				return
			}
			copy(out[ranges[i][0]:ranges[i][1]], r.Obs)
		}, nil)
		return out
	}
	a, b := collect(pool), collect(plain)
	same := 0
	for i := range paths {
		if a[i] == b[i] && a[i] != "" {
			same++
		} else {
			ctx.EngineError("instrumented and plain build disagree on [%s]: %q vs %q", pagedrv.PathString(paths[i]), a[i], b[i])
		}
	}
	return same
}
