// Package vatomic replaces sync/atomic in the instrumented build: every
// operation is a scheduling point and a synchronisation edge.
package vatomic

import (
	"unsafe"

	"verif/engine/sched"
)

//go:norace
func AddUint64(addr *uint64, delta uint64) uint64 {
	sched.Step("atomic.add")
	sched.Acquire(unsafe.Pointer(addr))
	*addr += delta
	v := *addr
	sched.ReleaseMerge(unsafe.Pointer(addr))
	return v
}

//go:norace
func LoadUint64(addr *uint64) uint64 {
	sched.Step("atomic.load")
	sched.Acquire(unsafe.Pointer(addr))
	return *addr
}

//go:norace
func StoreUint64(addr *uint64, v uint64) {
	sched.Step("atomic.store")
	*addr = v
	sched.ReleaseMerge(unsafe.Pointer(addr))
}

//go:norace
func AddInt64(addr *int64, delta int64) int64 {
	sched.Step("atomic.add")
	sched.Acquire(unsafe.Pointer(addr))
	*addr += delta
	v := *addr
	sched.ReleaseMerge(unsafe.Pointer(addr))
	return v
}

//go:norace
func AddUint32(addr *uint32, delta uint32) uint32 {
	sched.Step("atomic.add")
	sched.Acquire(unsafe.Pointer(addr))
	*addr += delta
	v := *addr
	sched.ReleaseMerge(unsafe.Pointer(addr))
	return v
}

//go:norace
func AddInt32(addr *int32, delta int32) int32 {
	sched.Step("atomic.add")
	sched.Acquire(unsafe.Pointer(addr))
	*addr += delta
	v := *addr
	sched.ReleaseMerge(unsafe.Pointer(addr))
	return v
}

//go:norace
func CompareAndSwapUint64(addr *uint64, old, new uint64) bool {
	sched.Step("atomic.cas")
	sched.Acquire(unsafe.Pointer(addr))
	if *addr != old {
		return false
	}
	*addr = new
	sched.ReleaseMerge(unsafe.Pointer(addr))
	return true
}
