// Package vdet removes Go's randomised map iteration order from the
// instrumented build: `for k, v := range m` is rewritten to iterate over
// vdet.Keys(m), which returns the keys in ascending order by default and makes
// any other order an explicit, recorded environment choice.
package vdet

import (
	"fmt"
	"reflect"
	"sort"

	"verif/engine/sched"
)

var forced int

// SetOrder fixes the order Keys returns (1 descending, 2 rotated) without
// asking the scheduler; 0 returns to the scheduler's choice. Sequential
// drivers use it to make the order part of an operation.
//
//go:norace
func SetOrder(o int) { forced = o % 3 }

// Keys returns the keys of map m as a []K (boxed), ordered according to the
// scheduler's choice (default ascending).
//
//go:norace
func Keys(m interface{}) interface{} {
	v := reflect.ValueOf(m)
	kt := v.Type().Key()
	keys := v.MapKeys()
	sortKeys(keys, kt)
	if n := len(keys); n >= 2 {
		c := forced
		if c == 0 {
			c = sched.Choose(3, "map-order")
		}
		switch c {
		case 1: // descending
			for i, j := 0, n-1; i < j; i, j = i+1, j-1 {
				keys[i], keys[j] = keys[j], keys[i]
			}
		case 2: // rotated by half
			h := n / 2
			rot := append(append([]reflect.Value{}, keys[h:]...), keys[:h]...)
			keys = rot
		}
	}
	out := reflect.MakeSlice(reflect.SliceOf(kt), len(keys), len(keys))
	for i, k := range keys {
		out.Index(i).Set(k)
	}
	return out.Interface()
}

//go:norace
func sortKeys(keys []reflect.Value, kt reflect.Type) {
	switch kt.Kind() {
	case reflect.Uint, reflect.Uint8, reflect.Uint16, reflect.Uint32, reflect.Uint64, reflect.Uintptr:
		sort.Slice(keys, func(i, j int) bool { return keys[i].Uint() < keys[j].Uint() })
	case reflect.Int, reflect.Int8, reflect.Int16, reflect.Int32, reflect.Int64:
		sort.Slice(keys, func(i, j int) bool { return keys[i].Int() < keys[j].Int() })
	case reflect.String:
		sort.Slice(keys, func(i, j int) bool { return keys[i].String() < keys[j].String() })
	default:
		sort.Slice(keys, func(i, j int) bool { return fmt.Sprint(keys[i].Interface()) < fmt.Sprint(keys[j].Interface()) })
	}
}
