// Package vsync replaces package sync in the instrumented build of go-txfile.
// Every operation is a scheduling point of engine/sched; blocking operations
// block the thread inside the scheduler, so deadlocks are detected exactly.
// Outside of a scheduled execution (sched.Active() == false) the types behave
// like trivially uncontended locks, which is enough for single-threaded setup
// code; real concurrency is never used with this package.
package vsync

import (
	"fmt"
	"sync"
	"unsafe"

	"verif/engine/sched"
)

// UnlockPoints makes Unlock a scheduling point as well (off by default: for
// code whose shared accesses are lock-protected, points before acquires,
// waits, signals, atomics and I/O reach every distinguishable interleaving;
// unprotected accesses are reported by the happens-before race pass).
var UnlockPoints = false

// Locker is sync.Locker.
type Locker = sync.Locker

// Mutex is a scheduler-visible mutex. The zero value is unlocked.
type Mutex struct {
	locked bool
	owner  int
}

// Lock acquires m, blocking the thread in the scheduler while it is held.
//
//go:norace
func (m *Mutex) Lock() {
	sched.Step("mutex.lock")
	for m.locked {
		sched.Block(m, fmt.Sprintf("mutex %p held by thread %d", m, m.owner))
	}
	m.locked = true
	m.owner = sched.Self()
	sched.Acquire(unsafe.Pointer(m))
}

// TryLock acquires m if it is free.
//
//go:norace
func (m *Mutex) TryLock() bool {
	sched.Step("mutex.trylock")
	if m.locked {
		return false
	}
	m.locked = true
	m.owner = sched.Self()
	sched.Acquire(unsafe.Pointer(m))
	return true
}

// Unlock releases m.
//
//go:norace
func (m *Mutex) Unlock() {
	if UnlockPoints {
		sched.Step("mutex.unlock")
	}
	if !m.locked {
		if sched.Aborting() {
			return
		}
		panic("vsync: unlock of unlocked mutex")
	}
	sched.ReleaseMerge(unsafe.Pointer(m))
	m.locked = false
	sched.Unblock(m)
}

// Cond is a scheduler-visible condition variable.
type Cond struct {
	L       Locker
	waiters []int // thread ids, FIFO
	gen     map[int]bool
}

// NewCond returns a new Cond with Locker l.
func NewCond(l Locker) *Cond { return &Cond{L: l} }

type condKey struct {
	c  *Cond
	id int
}

// Wait atomically unlocks c.L and suspends the thread; it relocks c.L before
// returning.
//
//go:norace
func (c *Cond) Wait() {
	sched.Step("cond.wait")
	id := sched.Self()
	c.waiters = append(c.waiters, id)
	c.L.Unlock()
	for c.waiting(id) {
		sched.Block(condKey{c, id}, fmt.Sprintf("cond %p", c))
	}
	sched.Acquire(unsafe.Pointer(c))
	c.L.Lock()
}

//go:norace
func (c *Cond) waiting(id int) bool {
	for _, w := range c.waiters {
		if w == id {
			return true
		}
	}
	return false
}

// Signal wakes one waiter, if there is any. Which one is an environment
// choice (default: the longest waiting).
//
//go:norace
func (c *Cond) Signal() {
	sched.Step("cond.signal")
	if len(c.waiters) == 0 {
		return
	}
	i := sched.Choose(len(c.waiters), "signal-target")
	id := c.waiters[i]
	c.waiters = append(c.waiters[:i:i], c.waiters[i+1:]...)
	sched.ReleaseMerge(unsafe.Pointer(c))
	sched.UnblockThread(id, condKey{c, id})
}

// Broadcast wakes all waiters.
//
//go:norace
func (c *Cond) Broadcast() {
	sched.Step("cond.broadcast")
	ws := c.waiters
	c.waiters = nil
	sched.ReleaseMerge(unsafe.Pointer(c))
	for _, id := range ws {
		sched.UnblockThread(id, condKey{c, id})
	}
}

// WaitGroup is a scheduler-visible wait group.
type WaitGroup struct {
	n int
}

// Add adds delta to the counter.
//
//go:norace
func (wg *WaitGroup) Add(delta int) {
	if delta < 0 {
		sched.Step("wg.done")
		sched.ReleaseMerge(unsafe.Pointer(wg))
	}
	wg.n += delta
	if wg.n < 0 {
		if sched.Aborting() {
			wg.n = 0
			return
		}
		panic("vsync: negative WaitGroup counter")
	}
	if wg.n == 0 {
		sched.Unblock(wg)
	}
}

// Done decrements the counter.
//
//go:norace
func (wg *WaitGroup) Done() { wg.Add(-1) }

// Wait blocks until the counter is zero.
//
//go:norace
func (wg *WaitGroup) Wait() {
	sched.Step("wg.wait")
	for wg.n > 0 {
		sched.Block(wg, fmt.Sprintf("waitgroup %p n=%d", wg, wg.n))
	}
	sched.Acquire(unsafe.Pointer(wg))
}

// FreshPool makes Pool.Get always call New (default: deterministic LIFO reuse,
// the behaviour under which a missing reset of a recycled object shows).
var FreshPool = false

// Pool is a deterministic sync.Pool.
type Pool struct {
	New   func() interface{}
	items []interface{}
}

// Get returns a pooled item (LIFO) or a new one.
//
//go:norace
func (p *Pool) Get() interface{} {
	if n := len(p.items); n > 0 && !FreshPool {
		x := p.items[n-1]
		p.items = p.items[:n-1]
		return x
	}
	if p.New != nil {
		return p.New()
	}
	return nil
}

// Put returns an item to the pool.
//
//go:norace
func (p *Pool) Put(x interface{}) {
	if x == nil {
		return
	}
	p.items = append(p.items, x)
}

// Go starts fn as a library goroutine owned by the scheduler.
func Go(fn func()) {
	sched.Go("lib", fn)
}
