// Package diskfmt is an independent decoder of go-txfile's on-disk format,
// written from the format description (layout.go, region.go, wal.go,
// freelist.go were read, none of their code is used). It reads a disk image
// without the library: the two headers, the free-list chain and the
// overwrite-mapping (WAL) chain of the header a recovery would pick. It is the
// oracle for "the persisted allocator state is sane" and for "no internal or
// free page is a live page".
package diskfmt

import (
	"encoding/binary"
	"fmt"
	"hash/fnv"
	"sort"
)

// Header is a decoded file header.
type Header struct {
	Valid     bool
	Magic     uint32
	Version   uint32
	PageSize  uint32
	MaxSize   uint64
	Flags     uint32
	Root      uint64
	Txid      uint64
	Freelist  uint64
	WAL       uint64
	DataEnd   uint64
	MetaEnd   uint64
	MetaTotal uint64
	Checksum  uint32
}

const headerSize = 84

// ParseHeader decodes one header (b must hold at least 84 bytes).
func ParseHeader(b []byte) Header {
	if len(b) < headerSize {
		return Header{}
	}
	le := binary.LittleEndian
	h := Header{Magic: le.Uint32(b[0:]), Version: le.Uint32(b[4:]), PageSize: le.Uint32(b[8:]), MaxSize: le.Uint64(b[12:]), Flags: le.Uint32(b[20:]),
		Root: le.Uint64(b[24:]), Txid: le.Uint64(b[32:]), Freelist: le.Uint64(b[40:]), WAL: le.Uint64(b[48:]), DataEnd: le.Uint64(b[56:]),
		MetaEnd: le.Uint64(b[64:]), MetaTotal: le.Uint64(b[72:]), Checksum: le.Uint32(b[80:])}
	f := fnv.New32a()
	f.Write(b[:80])
	h.Valid = h.Magic == 0xBEA77AEB && h.Version == 1 && h.Checksum == f.Sum32()
	return h
}

// State is what one header describes.
type State struct {
	Header    Header
	Slot      int
	DataFree  []uint64 // page ids on the data free list
	MetaFree  []uint64 // page ids on the meta free list
	ListPages []uint64 // pages holding the free list
	WALPages  []uint64 // pages holding the overwrite mapping
	Mapping   map[uint64]uint64
	// Unowned (filled by Check): pages below the file end that are neither live, free, nor metadata
	Unowned []uint64
}

// Decode picks the header a recovery would use (valid, newest by signed txid
// difference) and decodes its chains.
func Decode(img []byte, pageSize int) (*State, error) {
	if len(img) < 2*pageSize {
		return nil, fmt.Errorf("image shorter than two pages")
	}
	h0, h1 := ParseHeader(img[0:]), ParseHeader(img[pageSize:])
	slot := -1
	switch {
	case h0.Valid && h1.Valid:
		slot = 1
		if int64(h0.Txid-h1.Txid) > 0 {
			slot = 0
		}
	case h0.Valid:
		slot = 0
	case h1.Valid:
		slot = 1
	default:
		return nil, fmt.Errorf("no valid header")
	}
	st := &State{Slot: slot, Header: []Header{h0, h1}[slot], Mapping: map[uint64]uint64{}}
	page := func(id uint64) ([]byte, error) {
		off := id * uint64(pageSize)
		if id < 2 || off+uint64(pageSize) > uint64(len(img)) {
			return nil, fmt.Errorf("metadata page %d outside of the file (%d bytes)", id, len(img))
		}
		return img[off : off+uint64(pageSize)], nil
	}
	le := binary.LittleEndian
	seen := map[uint64]bool{}
	for id := st.Header.Freelist; id != 0; {
		if seen[id] {
			return nil, fmt.Errorf("free-list chain loops at page %d", id)
		}
		seen[id] = true
		b, err := page(id)
		if err != nil {
			return nil, fmt.Errorf("free list: %v", err)
		}
		st.ListPages = append(st.ListPages, id)
		next, count := le.Uint64(b[0:]), le.Uint32(b[8:])
		p := b[12:]
		for i := uint32(0); i < count; i++ {
			if len(p) < 8 {
				return nil, fmt.Errorf("free-list page %d: entry %d runs off the page", id, i)
			}
			v := le.Uint64(p)
			p = p[8:]
			isMeta := v>>63 == 1
			cnt := uint32(v>>55) & 0xFF
			pid := v & (1<<55 - 1)
			n := uint64(cnt)
			if cnt == 0 {
				n = 1
			} else if cnt == 255 {
				if len(p) < 4 {
					return nil, fmt.Errorf("free-list page %d: overflow count runs off the page", id)
				}
				n = uint64(le.Uint32(p))
				p = p[4:]
			}
			if n > 1<<24 {
				return nil, fmt.Errorf("free-list page %d: region {%d,%d} is absurd", id, pid, n)
			}
			for k := uint64(0); k < n; k++ {
				if isMeta {
					st.MetaFree = append(st.MetaFree, pid+k)
				} else {
					st.DataFree = append(st.DataFree, pid+k)
				}
			}
		}
		id = next
	}
	seen = map[uint64]bool{}
	for id := st.Header.WAL; id != 0; {
		if seen[id] {
			return nil, fmt.Errorf("mapping chain loops at page %d", id)
		}
		seen[id] = true
		b, err := page(id)
		if err != nil {
			return nil, fmt.Errorf("overwrite mapping: %v", err)
		}
		st.WALPages = append(st.WALPages, id)
		next, count := le.Uint64(b[0:]), le.Uint32(b[8:])
		p := b[12:]
		for i := uint32(0); i < count; i++ {
			if len(p) < 14 {
				return nil, fmt.Errorf("mapping page %d: entry %d runs off the page", id, i)
			}
			var k, v [8]byte
			copy(k[:7], p[0:7])
			copy(v[:7], p[7:14])
			st.Mapping[le.Uint64(k[:])] = le.Uint64(v[:])
			p = p[14:]
		}
		id = next
	}
	sort.Slice(st.DataFree, func(i, j int) bool { return st.DataFree[i] < st.DataFree[j] })
	sort.Slice(st.MetaFree, func(i, j int) bool { return st.MetaFree[i] < st.MetaFree[j] })
	return st, nil
}

// Check verifies the partition of the page id space against the set of live
// user pages (from the reference model). It returns human-readable problems.
func (st *State) Check(live []uint64) []string {
	var out []string
	end := st.Header.DataEnd
	if st.Header.MetaEnd > end {
		end = st.Header.MetaEnd
	}
	owner := map[uint64]string{}
	claim := func(id uint64, what string, limit uint64) {
		if id < 2 {
			out = append(out, fmt.Sprintf("%s %d is a header page", what, id))
			return
		}
		if id >= limit {
			out = append(out, fmt.Sprintf("%s %d lies at or beyond its end marker %d", what, id, limit))
		}
		if prev, ok := owner[id]; ok {
			out = append(out, fmt.Sprintf("page %d is both %s and %s", id, prev, what))
			return
		}
		owner[id] = what
	}
	for _, id := range live {
		claim(id, "a live page", st.Header.DataEnd)
	}
	for _, id := range st.DataFree {
		claim(id, "on the data free list", st.Header.DataEnd)
	}
	for _, id := range st.MetaFree {
		claim(id, "on the meta free list", end)
	}
	for _, id := range st.ListPages {
		claim(id, "a free-list page", end)
	}
	for _, id := range st.WALPages {
		claim(id, "a mapping page", end)
	}
	for k, v := range st.Mapping {
		claim(v, fmt.Sprintf("the overwrite page of %d", k), end)
	}
	// completeness: every page below the file end belongs to someone
	// (pages between the data end and the maximum size are the unused part of the data area, also when
	// metadata of the overflow area lies behind them)
	maxPages := uint64(0)
	if st.Header.PageSize > 0 {
		maxPages = st.Header.MaxSize / uint64(st.Header.PageSize)
	}
	for id := uint64(2); id < end; id++ {
		if _, ok := owner[id]; !ok {
			if id >= st.Header.DataEnd && (maxPages == 0 || id < maxPages) {
				continue
			}
			st.Unowned = append(st.Unowned, id)
		}
	}
	if uint64(len(st.MetaFree)) > st.Header.MetaTotal {
		out = append(out, fmt.Sprintf("%d free meta pages but a meta area of %d pages", len(st.MetaFree), st.Header.MetaTotal))
	}
	if len(out) > 6 {
		out = append(out[:6], fmt.Sprintf("... and %d more", len(out)-6))
	}
	return out
}
