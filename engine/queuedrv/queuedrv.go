// Package queuedrv drives go-txfile's persistent queue (pq) through its
// public Writer/Reader/ACK API on a simulated disk next to a slice-of-events
// reference model.
package queuedrv

import (
	"bytes"
	"fmt"

	txfile "github.com/elastic/go-txfile"
	"github.com/elastic/go-txfile/pq"
	"github.com/elastic/go-txfile/txerr"

	"verif/engine/pagedrv"
	"verif/engine/simdisk"
)

// OpKind enumerates queue driver operations.
type OpKind uint8

const (
	QWrite     OpKind = iota + 1 // A: event size, B: chunking mode
	QFlush                       //
	QBegin                       // reader Begin
	QNext                        // reader Next
	QRead                        // A: buffer mode (0 whole event, 1 one page, 2 seven bytes, 3 half of the rest)
	QDone                        // reader Done
	QAck                         // A: 0 = everything read so far, n>0 = n events
	QReopen                      // close queue and file, open both again
	QReadAll                     // Begin, read every available event completely, Done
	QFinish                      // finish an event whose Write/Next failed earlier (file full)
	QFill                        // A: event size; write events until the queue reports an error
	QAvail                       // reader Available (inside a reader transaction)
	QWritePart                   // A: bytes, B: chunking; Write without Next: the event stays unfinished
	QFillFlush                   // A: event size; write one event and Flush, until the queue reports an error
)

// Chunking modes of QWrite.
const (
	ChunkOne      = 0 // one Write call
	ChunkFirst    = 1 // 1 byte, then the rest
	ChunkPage     = 2 // split at the payload boundary of a page (pageSize-28)
	ChunkTailByte = 3 // everything but the last byte, then the last byte
	ChunkSmall    = 4 // 7-byte pieces for the first 40 bytes, then the rest
)

var opNames = map[OpKind]string{QWrite: "W", QFlush: "Flush", QBegin: "RBegin", QNext: "RNext", QRead: "RRead", QDone: "RDone",
	QAck: "ACK", QReopen: "Reopen", QReadAll: "ReadAll", QFinish: "Finish", QFill: "Fill", QAvail: "Avail", QWritePart: "WPart", QFillFlush: "FillFlush"}

// Op is one queue operation.
type Op struct {
	K OpKind `json:"k"`
	A int    `json:"a,omitempty"`
	B int    `json:"b,omitempty"`
}

func (o Op) String() string {
	switch o.K {
	case QWrite:
		return fmt.Sprintf("W(%d,c%d)", o.A, o.B)
	case QWritePart:
		return fmt.Sprintf("WPart(%d,c%d)", o.A, o.B)
	case QRead, QAck, QFill, QFillFlush:
		return fmt.Sprintf("%s(%d)", opNames[o.K], o.A)
	}
	return opNames[o.K]
}

// PathString renders an operation list.
func PathString(p []Op) string {
	var b bytes.Buffer
	for i, o := range p {
		if i > 0 {
			b.WriteString("; ")
		}
		b.WriteString(o.String())
	}
	return b.String()
}

// Cfg is a queue configuration.
type Cfg struct {
	File        pagedrv.Cfg
	BufferPages int // write buffer in pages (the queue never uses less than 5)
}

// EventBytes returns the deterministic contents of event #seq with n bytes.
func EventBytes(seq, n int) []byte {
	b := make([]byte, n)
	for j := range b {
		b[j] = byte((seq*131+j*7)%251 + 1)
	}
	return b
}

// Env is one live queue instance with its model.
type Env struct {
	Cfg  Cfg
	Disk *simdisk.Disk
	H    *simdisk.File
	F    *txfile.File
	Q    *pq.Queue
	W    *pq.Writer
	R    *pq.Reader

	// model
	Events   [][]byte // complete events (Next returned or failed after completing the event), in order
	Cur      []byte   // bytes accepted for the event in progress
	Rest     []byte   // bytes of the event in progress that still have to be written (after a failed Write)
	NextFail bool     // the event in progress is complete in the buffer but Next returned an error
	FlushLo  int      // events certainly flushed (last explicit successful Flush / reopen)
	FlushHi  int      // events possibly flushed
	Acked    int
	ReadPos  int // index of the next event the reader delivers
	InTx     bool
	TxAvail  int // flushed count visible to the running reader transaction
	InEvent  bool
	EvOff    int // bytes of the current event already read

	// observed through callbacks
	CBFlushed, CBAcked, CBAckPages uint
	// session bases (callbacks restart at 0 after reopening the queue)
	BaseFlushed, BaseAcked int

	// TxStates maps a header txid to the (acked, flushed) pair of the queue
	// state that commit established (crash oracle).
	TxStates  map[uint64][2]int
	LastTxid  uint64
	LastOpLog int

	Viol  []pagedrv.Violation
	Obs   []string
	Dead  bool
	Stats *pagedrv.StatsObserver
	Full  int // number of operations that failed because the file is full

	// fault injection (C06 fault pass): errors of an operation during which an
	// injected I/O failure occurred are the expected reaction
	TolerateFaults bool
	Faulted        int
	faultMark      int
}

func (e *Env) violate(class, format string, args ...interface{}) {
	e.Viol = append(e.Viol, pagedrv.Violation{Class: class, Msg: fmt.Sprintf(format, args...)})
}

func (e *Env) obs(format string, args ...interface{}) {
	e.Obs = append(e.Obs, fmt.Sprintf(format, args...))
}

// New creates a queue file.
func New(cfg Cfg) (*Env, error) {
	e := &Env{Cfg: cfg}
	e.Disk = simdisk.New("queue-"+cfg.File.Name, cfg.File.PageSize)
	if err := e.open(); err != nil {
		return nil, err
	}
	return e, nil
}

// Adopt wraps an existing disk image; the caller sets the model fields.
func Adopt(cfg Cfg, d *simdisk.Disk) *Env {
	return &Env{Cfg: cfg, Disk: d}
}

// Open opens file and queue on the adopted disk.
func (e *Env) Open() error { return e.open() }

func (e *Env) open() error {
	e.H = e.Disk.Open()
	e.Stats = &pagedrv.StatsObserver{}
	opts := e.Cfg.File.Options()
	opts.Observer = e.Stats
	f, err := txfile.VerifOpen(e.H, opts)
	if err != nil {
		return err
	}
	e.F = f
	return e.openQueue()
}

func (e *Env) openQueue() error {
	del, err := pq.NewStandaloneDelegate(e.F)
	if err != nil {
		return fmt.Errorf("NewStandaloneDelegate: %w", err)
	}
	e.CBFlushed, e.CBAcked, e.CBAckPages = 0, 0, 0
	q, err := pq.New(del, pq.Settings{
		WriteBuffer: uint(e.Cfg.BufferPages * e.Cfg.File.PageSize),
		Flushed:     func(n uint) { e.CBFlushed += n },
		ACKed:       func(ev, pages uint) { e.CBAcked += ev; e.CBAckPages += pages },
	})
	if err != nil {
		return fmt.Errorf("pq.New: %w", err)
	}
	e.Q = q
	w, err := q.Writer()
	if err != nil {
		return fmt.Errorf("Queue.Writer: %w", err)
	}
	e.W = w
	e.R = q.Reader()
	e.NoteTx()
	return nil
}

// NoteTx records which queue state the current header txid stands for.
func (e *Env) NoteTx() {
	if e.F == nil {
		return
	}
	s := e.F.VerifSnapshot()
	t := s.Txid[s.MetaActive]
	if e.TxStates == nil {
		e.TxStates = map[uint64][2]int{}
	}
	if t != e.LastTxid || len(e.TxStates) == 0 {
		e.LastTxid = t
		e.TxStates[t] = [2]int{e.Acked, e.Flushed()}
	}
}

// IOSig renders the shape of the I/O of the most recent operation.
func (e *Env) IOSig() string {
	_, ops := e.Disk.Log()
	if e.LastOpLog >= len(ops) {
		return ""
	}
	ps := int64(e.Cfg.File.PageSize)
	sig := ""
	for _, op := range ops[e.LastOpLog:] {
		switch op.Kind {
		case simdisk.OpWrite:
			if op.Off/ps < 2 {
				sig += "H"
			} else {
				sig += "W"
			}
		case simdisk.OpSync:
			sig += "S"
		case simdisk.OpTruncate:
			sig += "T"
		}
	}
	return sig
}

// IsFull reports whether err is an out-of-space condition.
func IsFull(err error) bool {
	return err != nil && (txerr.Is(txfile.OutOfMemory, err) || txerr.Is(txfile.NoDiskSpace, err))
}

// tight: the file is bounded and nearly full, so a flush may fail even if the
// error is not tagged as out-of-space.
func (e *Env) tight() bool {
	if e.Cfg.File.MaxPages == 0 || e.F == nil {
		return false
	}
	s := e.F.VerifSnapshot()
	a := s.DataAvail + s.MetaAvail
	if uint(s.DataEnd) < s.MaxPages {
		a += s.MaxPages - uint(s.DataEnd)
	}
	return a < uint(e.Cfg.BufferPages+12)
}

// Tight exports tight (concurrent scenarios).
func (e *Env) Tight() bool { return e.tight() }

// Flushed returns the number of events the queue has reported as flushed
// (callbacks, across reopen).
func (e *Env) Flushed() int { return e.BaseFlushed + int(e.CBFlushed) }

// failure classification of a writer-side error
func (e *Env) writerErr(what string, err error) {
	if e.TolerateFaults && e.Disk.Faults > e.faultMark {
		e.Faulted++
		e.obs("%s=io-error", what)
		return
	}
	if IsFull(err) || e.tight() {
		e.Full++
		e.obs("%s=full", what)
		e.checkStuck(what)
		return
	}
	e.violate("queue/error/"+what, "%s failed although the file is not full: %v", what, err)
}

// checkStuck: "after space is freed the buffered events are flushed by a
// later call". When every flushed event has been ACKed the queue holds only
// its header and last page; if the buffered events need less than half of the
// remaining file, a 'full' error means the file can no longer be used.
func (e *Env) checkStuck(what string) {
	mp := e.Cfg.File.MaxPages
	if mp == 0 || e.Acked < e.FlushLo || e.F == nil {
		return
	}
	bytes := len(e.Cur) + len(e.Rest)
	for _, ev := range e.Events[e.FlushLo:] {
		bytes += 4 + len(ev)
	}
	payload := e.Cfg.File.PageSize - 28
	need := (bytes+payload-1)/payload + 1
	if need > (mp-10)/2 {
		return
	}
	s := e.F.VerifSnapshot()
	size := "file"
	if mp <= 32 {
		size = "tiny-file"
	}
	e.violate("full/stuck-after-drain/"+size, "%s reports 'full' although every flushed event is ACKed and the %d buffered bytes need only %d of %d pages; the file holds %d data pages, its meta area has grown to %d pages (%d of them free), %d data pages are free",
		what, bytes, need, mp, s.Stats.DataAllocated, s.MetaTotal, s.MetaAvail, e.availData())
}

func (e *Env) availData() uint {
	s := e.F.VerifSnapshot()
	a := s.DataAvail
	if uint(s.DataEnd) < s.MaxPages {
		a += s.MaxPages - uint(s.DataEnd)
	}
	return a
}

func chunks(b []byte, mode, pageSize int) [][]byte {
	n := len(b)
	cut := func(at ...int) [][]byte {
		var out [][]byte
		prev := 0
		for _, a := range at {
			if a > prev && a < n {
				out = append(out, b[prev:a])
				prev = a
			}
		}
		return append(out, b[prev:])
	}
	switch mode {
	case ChunkFirst:
		return cut(1)
	case ChunkPage:
		return cut(pageSize - 28 - 4)
	case ChunkTailByte:
		return cut(n - 1)
	case ChunkSmall:
		return cut(7, 14, 21, 28, 35)
	}
	return [][]byte{b}
}
