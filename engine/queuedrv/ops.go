package queuedrv

import (
	"bytes"
	"crypto/sha256"
	"encoding/hex"
	"encoding/json"
	"fmt"
	"os"

	txfile "github.com/elastic/go-txfile"

	"verif/engine/pagedrv"
)

// Enabled reports whether op can be applied without misusing the API and
// without blocking the (single) harness thread on its own reader transaction.
func (e *Env) Enabled(op Op) bool {
	if e.Dead || e.Q == nil {
		return false
	}
	pendingEvent := len(e.Rest) > 0
	switch op.K {
	case QWrite, QFill, QWritePart, QFillFlush:
		return !e.InTx && !pendingEvent
	case QFinish:
		return !e.InTx && pendingEvent
	case QFlush:
		return !e.InTx
	case QBegin, QReadAll:
		return !e.InTx
	case QNext, QAvail:
		return e.InTx
	case QRead:
		return e.InTx && e.InEvent
	case QDone:
		return e.InTx
	case QAck:
		if e.InTx {
			return false
		}
		n := op.A
		if n == 0 {
			n = e.ReadPos - e.Acked
		}
		return n >= 1 && n <= e.ReadPos-e.Acked
	case QReopen:
		return !e.InTx
	}
	return false
}

func (e *Env) try(what string, fn func()) bool {
	if pn := pagedrv.Try(fn); pn != "" {
		msg := firstLine(pn)
		if os.Getenv("VERIF_STACK") != "" {
			msg = pn
		}
		e.violate("queue/panic/"+what, "%s panicked: %s", what, msg)
		e.Dead = true
		return false
	}
	return true
}

func firstLine(s string) string {
	if i := bytes.IndexByte([]byte(s), '\n'); i > 0 {
		return s[:i]
	}
	return s
}

// writeChunks feeds data to the writer; returns false if a call failed.
func (e *Env) writeChunks(parts [][]byte) bool {
	for i, c := range parts {
		var n int
		var err error
		// a flush that this call may trigger can cover every complete event
		if e.FlushHi < len(e.Events) {
			e.FlushHi = len(e.Events)
		}
		if !e.try("Write", func() { n, err = e.W.Write(c) }) {
			return false
		}
		e.NoteTx()
		if err != nil {
			e.writerErr("Write", err)
			var rest []byte
			for _, r := range parts[i:] {
				rest = append(rest, r...)
			}
			e.Rest = rest
			return false
		}
		if n != len(c) {
			e.violate("queue/write-count", "Write of %d bytes returned %d", len(c), n)
		}
		e.Cur = append(e.Cur, c...)
	}
	return true
}

func (e *Env) finishEvent() {
	var err error
	if !e.try("Next", func() { err = e.W.Next() }) {
		return
	}
	// the event is complete in the buffer whether or not the flush inside Next worked
	e.Events = append(e.Events, e.Cur)
	e.Cur, e.Rest = nil, nil
	e.FlushHi = len(e.Events)
	e.NoteTx()
	if err != nil {
		e.writerErr("Next", err)
	}
}

// Apply executes op on implementation and model.
func (e *Env) Apply(op Op) {
	e.faultMark = e.Disk.Faults
	switch op.K {
	case QWrite:
		// continues an unfinished event if there is one (contents depend on event number and offset only)
		off := len(e.Cur)
		data := EventBytes(len(e.Events), off+op.A)[off:]
		if e.writeChunks(chunks(data, op.B, e.Cfg.File.PageSize)) && !e.Dead {
			e.finishEvent()
		}
	case QWritePart:
		off := len(e.Cur)
		data := EventBytes(len(e.Events), off+op.A)[off:]
		e.writeChunks(chunks(data, op.B, e.Cfg.File.PageSize))
	case QFinish:
		rest := e.Rest
		e.Rest = nil
		if e.writeChunks([][]byte{rest}) && !e.Dead {
			e.finishEvent()
		}
	case QFill:
		for i := 0; i < 5000 && !e.Dead; i++ {
			full := e.Full
			off := len(e.Cur)
			data := EventBytes(len(e.Events), off+op.A)[off:]
			if e.writeChunks([][]byte{data}) && !e.Dead {
				e.finishEvent()
			}
			if e.Full > full || len(e.Viol) > 0 {
				break
			}
			e.syncFlushed("Fill")
		}
	case QFillFlush:
		for i := 0; i < 5000 && !e.Dead; i++ {
			full := e.Full
			off := len(e.Cur)
			data := EventBytes(len(e.Events), off+op.A)[off:]
			if e.writeChunks([][]byte{data}) && !e.Dead {
				e.finishEvent()
			}
			if e.Full == full && !e.Dead && len(e.Viol) == 0 {
				e.Apply(Op{K: QFlush})
			}
			if e.Full > full || len(e.Viol) > 0 {
				break
			}
		}
	case QFlush:
		var err error
		if !e.try("Flush", func() { err = e.W.Flush() }) {
			return
		}
		if err != nil {
			e.writerErr("Flush", err)
		} else {
			e.FlushLo, e.FlushHi = len(e.Events), len(e.Events)
		}
		e.NoteTx()
	case QBegin:
		var err error
		if !e.try("Reader.Begin", func() { err = e.R.Begin() }) {
			return
		}
		if err != nil {
			e.violate("queue/error/Reader.Begin", "Reader.Begin failed: %v", err)
			return
		}
		e.InTx = true
		e.TxAvail = e.FlushLo
	case QNext:
		e.readerNext()
	case QRead:
		ev := e.Events[e.ReadPos]
		rest := len(ev) - e.EvOff
		sz := rest
		switch op.A {
		case 1:
			sz = e.Cfg.File.PageSize
		case 2:
			sz = 7
		case 3:
			sz = (rest + 1) / 2
		}
		e.readerRead(sz)
	case QDone:
		if !e.try("Reader.Done", func() { e.R.Done() }) {
			return
		}
		e.InTx = false
	case QAvail:
		var n uint
		var err error
		if !e.try("Reader.Available", func() { n, err = e.R.Available() }) {
			return
		}
		if err != nil {
			e.violate("queue/error/Available", "Reader.Available failed: %v", err)
		} else if want := e.TxAvail - e.ReadPos; int(n) != want && !(e.TxAvail <= e.Acked && n == 0) {
			e.violate("counters/available", "Reader.Available=%d, flushed and not yet consumed by the reader: %d (flushed %d, consumed %d)", n, want, e.TxAvail, e.ReadPos)
		}
	case QReadAll:
		e.Apply(Op{K: QBegin})
		for !e.Dead && e.InTx {
			before := e.ReadPos
			e.Apply(Op{K: QAvail})
			e.readerNext()
			if !e.InEvent {
				break
			}
			for e.InEvent && !e.Dead {
				e.readerRead(len(e.Events[e.ReadPos]) - e.EvOff)
			}
			if e.ReadPos == before {
				break
			}
		}
		if e.InTx && !e.Dead {
			e.Apply(Op{K: QDone})
		}
	case QAck:
		n := op.A
		if n == 0 {
			n = e.ReadPos - e.Acked
		}
		var err error
		if !e.try("ACK", func() { err = e.Q.ACK(uint(n)) }) {
			return
		}
		if err != nil {
			if e.TolerateFaults && e.Disk.Faults > e.faultMark {
				e.Faulted++
				e.obs("ACK=io-error")
				return
			}
			e.violate("queue/error/ACK", "ACK(%d) of %d delivered, un-ACKed events failed: %v", n, e.ReadPos-e.Acked, err)
			return
		}
		e.Acked += n
		e.NoteTx()
	case QReopen:
		e.reopen()
	}
	if !e.Dead && !e.InTx && e.Q != nil {
		e.syncFlushed(op.String())
		e.CheckCounters(op.String())
	}
}

// syncFlushed adopts the flushed count reported by the queue after checking
// it against what the call history allows.
func (e *Env) syncFlushed(after string) {
	f := e.Flushed()
	if f < e.FlushLo || f > e.FlushHi {
		e.violate("counters/flushed-callback", "after %s the Flushed callbacks add up to %d events; the history allows %d..%d (complete events: %d)", after, f, e.FlushLo, e.FlushHi, len(e.Events))
		return
	}
	e.FlushLo, e.FlushHi = f, f
}

// CheckCounters compares Pending/Active/callback totals with the model
// (between operations, no reader transaction open).
func (e *Env) CheckCounters(after string) {
	f := e.FlushLo
	var p int
	var a uint
	var err1, err2 error
	if !e.try("Pending", func() { p, err1 = e.Q.Pending() }) || !e.try("Active", func() { a, err2 = e.Q.Active() }) {
		return
	}
	if err1 != nil || err2 != nil {
		e.violate("queue/error/counters", "Pending/Active failed: %v %v", err1, err2)
		return
	}
	if p != f-e.Acked {
		e.violate("counters/pending", "after %s Pending=%d, flushed %d - ACKed %d = %d", after, p, f, e.Acked, f-e.Acked)
	}
	if int(a) != f-e.Acked {
		e.violate("counters/active", "after %s Active=%d, flushed %d - ACKed %d = %d", after, a, f, e.Acked, f-e.Acked)
	}
	if got := e.BaseAcked + int(e.CBAcked); got != e.Acked {
		e.violate("counters/acked-callback", "after %s the ACKed callbacks add up to %d events, %d were ACKed", after, got, e.Acked)
	}
}

func (e *Env) readerNext() {
	var n int
	var err error
	if !e.try("Reader.Next", func() { n, err = e.R.Next() }) {
		return
	}
	if err != nil {
		e.violate("queue/error/Reader.Next", "Reader.Next failed: %v", err)
		e.Dead = true
		return
	}
	if e.InEvent { // rest of the current event is skipped
		e.ReadPos++
		e.InEvent = false
	}
	if e.ReadPos < e.TxAvail {
		want := len(e.Events[e.ReadPos])
		if n != want {
			what := "wrong size"
			if n == 0 {
				what = "no event"
			}
			e.violate("deliver/next", "Reader.Next returned %d (%s); event #%d of %d flushed has %d bytes", n, what, e.ReadPos, e.TxAvail, want)
			e.Dead = true
			return
		}
		e.InEvent, e.EvOff = true, 0
		return
	}
	if n != 0 {
		e.violate("deliver/unflushed", "Reader.Next returned an event of %d bytes although all %d flushed events were delivered (complete events: %d)", n, e.TxAvail, len(e.Events))
		e.Dead = true
	}
}

func (e *Env) readerRead(sz int) {
	ev := e.Events[e.ReadPos]
	buf := make([]byte, sz)
	var n int
	var err error
	if !e.try("Reader.Read", func() { n, err = e.R.Read(buf) }) {
		return
	}
	if err != nil {
		e.violate("queue/error/Reader.Read", "Reader.Read failed: %v", err)
		e.Dead = true
		return
	}
	want := len(ev) - e.EvOff
	if want > sz {
		want = sz
	}
	if n != want {
		e.violate("deliver/read-count", "Reader.Read into %d bytes returned %d, expected %d (event #%d, %d bytes, offset %d)", sz, n, want, e.ReadPos, len(ev), e.EvOff)
		e.Dead = true
		return
	}
	if !bytes.Equal(buf[:n], ev[e.EvOff:e.EvOff+n]) {
		i := 0
		for i < n && buf[i] == ev[e.EvOff+i] {
			i++
		}
		e.violate("deliver/content", "event #%d (%d bytes): byte %d differs from what was written (read at offset %d, %d bytes)", e.ReadPos, len(ev), e.EvOff+i, e.EvOff, n)
		e.Dead = true
		return
	}
	e.EvOff += n
	if e.EvOff == len(ev) {
		e.ReadPos++
		e.InEvent = false
	}
}

func (e *Env) reopen() {
	var err error
	if !e.try("Queue.Close", func() { err = e.Q.Close() }) {
		return
	}
	if err != nil {
		e.writerErr("Queue.Close", err)
	} else {
		e.FlushLo, e.FlushHi = len(e.Events), len(e.Events)
		if f := e.Flushed(); f != len(e.Events) {
			e.violate("counters/flushed-callback", "Queue.Close succeeded; Flushed callbacks add up to %d, complete events: %d", f, len(e.Events))
		}
	}
	e.NoteTx()
	// what was not flushed is gone
	e.Events = e.Events[:e.FlushLo]
	e.Cur, e.Rest = nil, nil
	if !e.try("File.Close", func() { err = e.F.Close() }) {
		return
	}
	if err != nil {
		e.violate("queue/error/File.Close", "File.Close failed: %v", err)
	}
	e.Q, e.F = nil, nil
	e.BaseFlushed, e.BaseAcked = e.FlushLo, e.Acked
	if !e.try("open", func() { err = e.open() }) {
		return
	}
	if err != nil {
		e.violate("queue/error/open", "reopening file and queue failed: %v", err)
		e.Dead = true
		return
	}
	e.ReadPos, e.InEvent, e.EvOff = e.Acked, false, 0
}

// PagesOf is the number of pages an event of n bytes can span.
func (e *Env) PagesOf(n int) int {
	payload := e.Cfg.File.PageSize - 28
	return (4+n+payload-1)/payload + 1
}

// SpaceBound is the C12 bound on data pages held by the queue: header page +
// pages of un-ACKed flushed events + pages of the most recent event.
func (e *Env) SpaceBound() int {
	b := 1
	for i := e.Acked; i < e.FlushLo && i < len(e.Events); i++ {
		b += e.PagesOf(len(e.Events[i]))
	}
	last := 1
	if n := len(e.Events); n > 0 {
		last = len(e.Events[n-1])
	}
	if e.Acked > 0 && e.Acked <= len(e.Events) {
		if l := len(e.Events[e.Acked-1]); l > last {
			last = l
		}
	}
	return b + e.PagesOf(last)
}

// CheckSpace applies the C12 space oracle (quiescent points only).
func (e *Env) CheckSpace(after string) {
	if e.InTx || e.F == nil {
		return
	}
	s := e.F.VerifSnapshot()
	if got, bound := int(s.Stats.DataAllocated), e.SpaceBound(); got > bound {
		e.violate("space/queue-holds-too-much", "after %s the queue file holds %d data pages; header + un-ACKed events (%d) + most recent event allow %d", after, got, e.FlushLo-e.Acked, bound)
	}
}

type keyDoc struct {
	Q     interface{}
	Snap  txfile.VerifSnapshot
	Sizes []int
	M     [8]int
	B     [2]bool
}

// Key is the canonical state key of the queue instance (see pagedrv.Env.Key
// for the argument; event ids and contents are part of the key, so only
// histories that really reach the same state are merged).
func (e *Env) Key() string {
	h := sha256.New()
	if e.Q == nil || e.F == nil {
		h.Write([]byte("closed"))
	} else {
		d := keyDoc{Q: e.Q.VerifState(), Snap: e.F.VerifSnapshot()}
		a := d.Snap.MetaActive
		diff := int64(d.Snap.Txid[a] - d.Snap.Txid[1-a])
		d.Snap.Txid = [2]uint64{}
		d.Snap.Stats.Size = 0
		for _, ev := range e.Events {
			d.Sizes = append(d.Sizes, len(ev))
		}
		d.M = [8]int{len(e.Cur), len(e.Rest), e.FlushLo, e.FlushHi, e.Acked, e.ReadPos, e.EvOff, int(diff)}
		d.B = [2]bool{e.InTx, e.InEvent}
		js, _ := json.Marshal(d)
		h.Write(js)
	}
	img := e.Disk.Bytes()
	ps := e.Cfg.File.PageSize
	if len(img) >= 2*ps {
		var zero [8]byte
		for slot := 0; slot < 2; slot++ {
			base := slot * ps
			h.Write(img[base : base+pagedrv.OffTxid])
			h.Write(zero[:8])
			h.Write(img[base+pagedrv.OffTxid+8 : base+pagedrv.OffChecksum])
			h.Write(zero[:4])
			h.Write(img[base+pagedrv.HeaderSize : base+ps])
		}
		h.Write(img[2*ps:])
	} else {
		h.Write(img)
	}
	return hex.EncodeToString(h.Sum(nil)[:16])
}

// Describe summarises the model for diagnostics.
func (e *Env) Describe() string {
	return fmt.Sprintf("events=%d flushed=%d..%d acked=%d readpos=%d intx=%v inevent=%v", len(e.Events), e.FlushLo, e.FlushHi, e.Acked, e.ReadPos, e.InTx, e.InEvent)
}
