// Package par runs tasks on a pool of worker processes (the scheduler and the
// instrumented library are process-global, so parallelism is by process).
// Tasks and results are single-line JSON documents over stdin/stdout.
package par

import (
	"bufio"
	"bytes"
	"encoding/json"
	"fmt"
	"io"
	"os"
	"os/exec"
	"runtime/debug"
	"sync"
	"sync/atomic"
	"syscall"
	"time"
)

const maxLine = 1 << 30

type proc struct {
	cmd    *exec.Cmd
	in     io.WriteCloser
	out    *bufio.Reader
	stderr *bytes.Buffer
}

// Pool is a set of worker processes.
type Pool struct {
	N        int
	Bin      string // binary to run (default: this binary)
	Args     []string
	Env      []string
	mu       sync.Mutex
	idle     []*proc // children kept alive between Run calls
	Restarts int64
}

// NewPool creates a pool of n children running os.Args[0] with args.
func NewPool(n int, args ...string) *Pool {
	return &Pool{N: n, Args: args}
}

func (p *Pool) start() (*proc, error) {
	bin := p.Bin
	if bin == "" {
		bin = os.Args[0]
	}
	cmd := exec.Command(bin, p.Args...)
	cmd.Env = append(os.Environ(), "GOMAXPROCS=2", "VERIF_CHILD=1")
	cmd.Env = append(cmd.Env, p.Env...)
	in, err := cmd.StdinPipe()
	if err != nil {
		return nil, err
	}
	out, err := cmd.StdoutPipe()
	if err != nil {
		return nil, err
	}
	pr := &proc{cmd: cmd, in: in, out: bufio.NewReaderSize(out, 1<<20), stderr: &bytes.Buffer{}}
	cmd.Stderr = pr.stderr
	if err := cmd.Start(); err != nil {
		return nil, err
	}
	return pr, nil
}

func (pr *proc) kill() {
	if pr == nil || pr.cmd.Process == nil {
		return
	}
	pr.cmd.Process.Kill()
	pr.cmd.Wait()
}

// TaskError describes a task whose child died or timed out.
type TaskError struct {
	Timeout bool
	Msg     string
	Stderr  string
}

func (e *TaskError) Error() string { return e.Msg }

// Run executes all tasks; handle is called (serialised) for every task with
// either a result or an error. Tasks not started before deadline (zero: none)
// are reported to skipped (may be nil). perTask bounds one task (child is
// killed and restarted after it).
func (p *Pool) Run(tasks [][]byte, deadline time.Time, perTask time.Duration,
	handle func(idx int, res []byte, err *TaskError), skipped func(idx int)) {

	var next int64 = -1
	var hmu sync.Mutex
	var wg sync.WaitGroup
	n := p.N
	if n > len(tasks) {
		n = len(tasks)
	}
	for w := 0; w < n; w++ {
		wg.Add(1)
		go func() {
			defer wg.Done()
			pr := p.takeIdle()
			defer func() {
				if pr != nil {
					p.putIdle(pr)
				}
			}()
			for {
				i := int(atomic.AddInt64(&next, 1))
				if i >= len(tasks) {
					return
				}
				if !deadline.IsZero() && time.Now().After(deadline) {
					if skipped != nil {
						hmu.Lock()
						skipped(i)
						hmu.Unlock()
					}
					continue
				}
				if pr == nil {
					var err error
					pr, err = p.start()
					if err != nil {
						hmu.Lock()
						handle(i, nil, &TaskError{Msg: "cannot start child: " + err.Error()})
						hmu.Unlock()
						continue
					}
				}
				res, terr := pr.roundTrip(tasks[i], perTask)
				if terr != nil {
					pr.kill()
					terr.Stderr = tail(pr.stderr.String(), 4000)
					pr = nil
					atomic.AddInt64(&p.Restarts, 1)
				}
				hmu.Lock()
				handle(i, res, terr)
				hmu.Unlock()
			}
		}()
	}
	wg.Wait()
}

func (p *Pool) takeIdle() *proc {
	p.mu.Lock()
	defer p.mu.Unlock()
	if n := len(p.idle); n > 0 {
		pr := p.idle[n-1]
		p.idle = p.idle[:n-1]
		return pr
	}
	return nil
}

func (p *Pool) putIdle(pr *proc) {
	p.mu.Lock()
	p.idle = append(p.idle, pr)
	p.mu.Unlock()
}

// Close terminates the idle children.
func (p *Pool) Close() {
	p.mu.Lock()
	defer p.mu.Unlock()
	for _, pr := range p.idle {
		pr.in.Close()
		pr.kill()
	}
	p.idle = nil
}

func tail(s string, n int) string {
	if len(s) > n {
		return s[len(s)-n:]
	}
	return s
}

func (pr *proc) roundTrip(task []byte, limit time.Duration) ([]byte, *TaskError) {
	type rr struct {
		line []byte
		err  error
	}
	ch := make(chan rr, 1)
	go func() {
		if _, err := pr.in.Write(append(task, '\n')); err != nil {
			ch <- rr{nil, err}
			return
		}
		line, err := readLine(pr.out)
		ch <- rr{line, err}
	}()
	var timer <-chan time.Time
	if limit > 0 {
		t := time.NewTimer(limit)
		defer t.Stop()
		timer = t.C
	}
	select {
	case r := <-ch:
		if r.err != nil {
			return nil, &TaskError{Msg: "child died: " + r.err.Error()}
		}
		return r.line, nil
	case <-timer:
		return nil, &TaskError{Timeout: true, Msg: fmt.Sprintf("task exceeded its %v watchdog", limit)}
	}
}

func readLine(r *bufio.Reader) ([]byte, error) {
	var buf []byte
	for {
		chunk, isPrefix, err := r.ReadLine()
		if err != nil {
			return nil, err
		}
		buf = append(buf, chunk...)
		if !isPrefix {
			return buf, nil
		}
		if len(buf) > maxLine {
			return nil, fmt.Errorf("result line too long")
		}
	}
}

// Serve is the child side: reads tasks, writes results. handler must return a
// JSON-marshalable value. A panic in handler is reported as {"engine_error":..}.
func Serve(handler func(task []byte) interface{}) {
	// address-space limit: a runaway allocation kills this child, not the sandbox
	var lim syscall.Rlimit
	lim.Cur, lim.Max = 24<<30, 24<<30
	syscall.Setrlimit(syscall.RLIMIT_AS, &lim)
	debug.SetMemoryLimit(6 << 30)

	in := bufio.NewReaderSize(os.Stdin, 1<<20)
	out := bufio.NewWriterSize(os.Stdout, 1<<20)
	for {
		line, err := readLine(in)
		if err != nil {
			return
		}
		res := safeHandle(handler, line)
		js, err := json.Marshal(res)
		if err != nil {
			js, _ = json.Marshal(map[string]string{"engine_error": "marshal: " + err.Error()})
		}
		out.Write(js)
		out.WriteByte('\n')
		out.Flush()
	}
}

func safeHandle(handler func([]byte) interface{}, line []byte) (res interface{}) {
	defer func() {
		if r := recover(); r != nil {
			res = map[string]string{"engine_error": fmt.Sprintf("child handler panic: %v\n%s", r, debug.Stack())}
		}
	}()
	return handler(line)
}
