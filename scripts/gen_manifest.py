#!/usr/bin/env python3
"""Generates /verif/MANIFEST.json from the table below (single source of truth)."""
import json, subprocess, os

CHECKS = {
 "C03": dict(level="model_checking",
   technique="explicit-state BFS over operation histories of the real implementation vs. reference model, plus bounded schedule enumeration of the background writer",
   text="Breadth-first explicit-state search over every history of the page API alphabet (begin/alloc/write full|partial|load/free/flush/checkpoint/set-root/commit/rollback/reopen) up to a depth bound on several configurations, executed on the real (scheduler-instrumented) library over a simulated disk; after every transaction end and reopen a read transaction is compared byte-for-byte with a map-of-pages model, and inside the writing transaction every write is read back.",
   note="Bounded: page contents from a 3-symbol alphabet, roles first/second/last, depth bound reported in evidence; background writer runs under the cooperative scheduler's default schedule in the BFS and under enumerated schedules in the writer-timing pass.",
   ref="5/C03"),
}

NOT_YET = {}

def main():
    here = os.path.dirname(os.path.abspath(__file__))
    root = os.path.dirname(here)
    props = [json.loads(l)["id"] for l in open(os.path.join(root, "properties.jsonl"))]
    na_path = os.path.join(root, "scripts", "not_applicable.json")
    na = json.load(open(na_path)) if os.path.exists(na_path) else {}
    hooks_commits = []
    try:
        out = subprocess.check_output(["git", "-C", "/repo", "log", "--format=%H %s"], text=True)
        hooks_commits = [l.split()[0] for l in out.splitlines() if l.split(" ", 1)[1].startswith("verif:")]
    except Exception:
        pass
    baseline = json.load(open("/root/.vp/BASELINE.json"))["cmd"]
    m = {
      "version": 1,
      "setup_cmd": "bash scripts/setup.sh",
      "hooks": {
        "guard": "verif",
        "enable": "go build -tags verif -overlay <.build/<hash>/overlay.json written by cmd/instr> (sync -> verif/engine/vsync, sync/atomic -> vatomic, go stmt -> scheduler thread, map range -> vdet.Keys)",
        "baseline_off_cmd": baseline,
        "source_commits": hooks_commits,
        "add_only": True,
      },
      "engines": [
        {"name": "sched+vsync", "path": "engine/sched", "serves_properties": ["C02", "C09", "C13", "C03"], "kind_free_text": "cooperative deterministic scheduler over the library's real sync operations; stateless DFS over recorded choice points with preemption/deviation bounds"},
        {"name": "xstate", "path": "engine/xstate", "serves_properties": ["C03", "C04", "C07", "C10", "C11", "C14", "C15"], "kind_free_text": "explicit-state BFS, canonical state key from hook snapshots + disk image, successors by replay on fresh instances"},
        {"name": "simdisk", "path": "engine/simdisk", "serves_properties": ["C01", "C06", "C08", "C16"], "kind_free_text": "in-memory vfs.File with op log, exhaustive crash-image and fault-plan enumeration"},
      ],
      "checks": [],
      "not_applicable": [],
      "notes": "All checks rebuild from /repo's working tree through scripts/build.sh (content-hash keyed). See DESIGN.md.",
    }
    for pid in props:
        if pid in CHECKS:
            c = CHECKS[pid]
            m["checks"].append({
              "property_id": pid,
              "quick_cmd": f"bash scripts/check.sh {pid} quick",
              "thorough_cmd": f"bash scripts/check.sh {pid} thorough",
              "evidence_file": f"/verif/evidence/{pid}.json",
              "replay_cmd_template": f"bash scripts/check.sh replay {pid} {{path}}",
              "engine": c.get("engine", "xstate"),
              "level_claimed": {"category": c["level"], "text": c["text"], "design_ref": c["ref"]},
              "level_note": c["note"],
              "technique": c["technique"],
            })
        else:
            m["not_applicable"].append({"property_id": pid, "reason": na.get(pid, "check not built yet in this session (designed in DESIGN.md section 5); not claimed until it runs")})
    json.dump(m, open(os.path.join(root, "MANIFEST.json"), "w"), indent=1)
    print("wrote MANIFEST.json:", len(m["checks"]), "checks,", len(m["not_applicable"]), "not applicable")

main()
