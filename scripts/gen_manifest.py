#!/usr/bin/env python3
"""Generates /verif/MANIFEST.json from the table below (single source of truth)."""
import json, subprocess, os

CHECKS = {
 "C18": dict(level="model_checking", engine="plain build on the real file system",
   technique="exhaustive enumeration of all open / failing-open / close sequences up to a depth on one path with the real Open, against the reference model 'who holds the lock'",
   text="Every sequence of at most 5 (thorough 6) operations from {Open, second Open, Open with the wait flag in a goroutine, Open with invalid options, with both headers damaged, with the file truncated inside header 0, on a new file whose max size is below the mmap minimum (fails after the lock is taken), with the path symlinked to /dev/full (every write fails during initialisation), Close of each handle} is executed in a fresh directory with the uninstrumented library. A second open while one handle is held must fail with LockFailed (the waiting open must not return while the holder is open and must succeed after its Close); after Close and after any failed Open the path must be openable at once.",
   note="Local file system with working flock(2); I/O failures during initialisation are those a real file system can be made to produce offline; the waiting open is judged by safety plus a 60 s ceiling.",
   ref="5/C18"),
 "C05": dict(level="model_checking", engine="xstate",
   technique="exhaustive enumeration of producer/consumer scripts over boundary event sizes x chunkings x flush/read policies, plus explicit-state BFS over queue operations, on the real queue vs. a slice-of-events model",
   text="(i) every sequence of 1-2 (thorough: up to 3) events with sizes from the layout's boundary alphabet (page payload +/- a few bytes, event header straddling a page, multi page, larger than the write buffer) x 4 ways to split an event over Write calls x 3 flush policies x 4 read policies (whole, page buffer, 7-byte buffer, skip with Next; one or many reader transactions); (ii) BFS over Write(size class, chunking)/Flush/reader Begin/Next/Read(partial)/Done/ACK/reopen. Oracle: delivered events equal the flushed prefix of the appended events byte for byte, nothing skipped, duplicated, truncated or merged, Next returns the model size, unflushed events are never delivered, no call panics or deadlocks.",
   note="Event sizes from a boundary alphabet; depth-bounded search; single harness thread (concurrency is C13).",
   ref="5/C05"),
 "C06": dict(level="fault_enumeration", engine="simdisk",
   technique="exhaustive crash-image enumeration over the I/O of flush/ACK/close transitions of queue histories from an explicit-state BFS",
   text="One queue history per distinct I/O shape of a writing operation (event write with implicit flush, Flush, ACK, close): every I/O boundary x every subset of un-synced page writes x header tears; the image is opened through txfile open + NewStandaloneDelegate + pq.New; the reader must deliver exactly the events [acked', flushed') of the recovered header's transaction (the last completed one or, atomically, the flush/ACK in flight), counters must agree, and a write/flush/read/ACK/reopen round must work.",
   note="As C01: page-granular loss, durable after a completed Sync. Clean close/reopen points are exercised by the Reopen operation of the C05/C17 search.",
   ref="5/C06"),
 "C12": dict(level="model_checking", engine="xstate",
   technique="explicit-state BFS over queue operations including fill-until-error on small bounded files, with a model-computed space bound at every quiescent state, plus scripted fill/drain cycles",
   text="On 64-page files: BFS over Write(3 size classes)/Flush/Fill-until-error/Finish/ReadAll/ACK(1|all)/Reopen. Oracle: order and content by the event model throughout; a full file makes Write/Next/Flush return an error without affecting what is delivered; reading and ACK succeed on the full file; data pages held never exceed header + pages of un-ACKed flushed events + pages of the most recent event (computed from the model, so independent of past traffic); after a drain a further event is accepted; 4-6 fill/drain cycles per event size class. Further: a sweep over the number of one-page events flushed, ACKed and reopened (free regions around 255 pages), a seeded search on the full 17-page file after a reopen, and every operation (thorough: pair) from the 1334 harvested queue states of props/qharvest.json.",
   note="Bound per the property statement; the number of events accepted per cycle is recorded, not judged.",
   ref="5/C12"),
 "C13": dict(level="model_checking", engine="sched+vsync",
   technique="stateless enumeration of all producer/consumer thread schedules up to a preemption bound on the real queue, plus happens-before race detection inside those schedules",
   text="Producer thread (Write/Next/Flush), consumer thread (Begin/Next/Read/Done/ACK, polling with a fair spin yield) and the file's background writer on one queue, event mixes sharing pages, spanning pages and exceeding the buffer, with and without a prefilled/partly ACKed queue. Every schedule within the preemption bound is executed; the consumer's sequence must be a prefix of the produced one at every point and equal at the end, every ACK must succeed, nothing may deadlock, the queue must be empty and still accept and deliver a further event afterwards. The same schedules run in the -race build with scheduler hand-offs hidden from the detector.",
   note="Preemption-bounded (1 quick, 2 thorough).",
   ref="5/C13"),
 "C17": dict(level="model_checking", engine="xstate",
   technique="same exhaustive script enumeration and explicit-state BFS as C05, judging counters and callbacks after every operation",
   text="After every operation of every C05 script and BFS transition: Pending and Active equal flushed - ACKed of the model, Reader.Available equals flushed - consumed inside reader transactions, the Flushed callback total lies within what the call history allows (exact after every explicit Flush/close) and the ACKed callback total equals the ACKed events - also after reopening the queue.",
   note="The number of events covered by an implicit flush is bounded by the history and then taken from the callbacks; all other indicators must agree with it.",
   ref="5/C17"),
 "C02": dict(level="model_checking", engine="sched+vsync",
   technique="stateless enumeration of all thread schedules up to a preemption bound (writer program x readers x background writer) on the real implementation, interval oracle over the scheduler's total order",
   text="One writer program (overwrite full/partial, flush, free+alloc, checkpoint, commit that remaps the file; ending in commit, rollback, failed commit or two commits) runs against one or two readers on files with plain pages, overwrite mappings, fragmented free lists, or about to outgrow the mapping. Every schedule within the preemption bound is executed. Each reader reads every page twice with a scheduling point in between; both reads must equal one committed model state whose commit index lies between the last commit completed before BeginReadonly was called and the last commit started before it returned; aborted and failed commits are never visible; unmapped views are poisoned so a use-after-remap shows.",
   note="Preemption-bounded; sequentially consistent interleavings at synchronisation/I/O granularity.",
   ref="5/C02"),
 "C14": dict(level="model_checking",
   technique="explicit-state BFS with open-with-new-max-size as an operation of the alphabet, per-transition oracles and capacity probes",
   text="ReopenWith(64|96|128|unbounded, prealloc) is part of the BFS alphabet on bounded and unbounded files, so every prior history of the graph meets every (old,new) pair and is followed by further history. Oracle: open succeeds, root and live pages equal the model, lock state idle and Begin/BeginReadonly complete (exact under the scheduler), the limit is applied and reported by FileStats after this and after a later plain open, after growing the capacity equation holds with the new maximum (probe on a twin), after shrinking the simulated file never extends beyond max(previous extent, new limit). Further runs use an alphabet with overflow-enabled transactions on full, grown-and-filled, scattered-free and overflow-using files, with the independent decoder, the memory-vs-disk comparison and an allocation sweep in every state reached through a size change; every size change is also tried from each of the 575 harvested states.",
   note="Depth-bounded histories; sizes from a small set.",
   ref="5/C14"),
 "C15": dict(level="model_checking",
   technique="exhaustive enumeration of the (receiver lifecycle state x API method) matrix after every prefix history of an explicit-state BFS",
   text="After every distinct quiescent state of a BFS (and the empty file): transactions in states active/read-only/committed/rolled back/closed/failed commit x every Tx method with argument classes (page id 0, 1, end marker, huge, freed, live), and pages in states new-empty/clean/dirty/flushed/freed/read-only/finished x every Page method incl. oversize contents. Calls the documentation defines as invalid must return an error of the documented kind, never panic or block, and leave file snapshot and transaction state unchanged; afterwards the committed model state is still readable and a new transaction commits. The queue part (closed queue, ACK too many) runs on the queue driver.",
   note="Expectation table written from the API documentation; cells whose result the documentation leaves open are only required not to panic.",
   ref="5/C15"),
 "C08": dict(level="fault_enumeration", engine="simdisk",
   technique="exhaustive fault-plan enumeration (I/O call index x failure kind x burst length x writer timing) over histories selected from an explicit-state BFS, executed on the real implementation under the deadlock-detecting scheduler",
   text="For one representative history per I/O shape (including open-time resize, rollback after flush, checkpointing commits): every I/O call issued during the history's last transaction, every failure kind applicable to it (error before effect, short write then error, failing sync/truncate/size/mmap/munmap), burst lengths 1-3, with the background writer lazy or eager. Oracle: no panic, no deadlock (exact, by the scheduler), a commit whose I/O failed returns an error, in-process readers keep seeing exactly the last successfully committed model state, after the failures stop a new transaction commits on the same File, and after close/reopen the file shows that state or - only if the header was written and only the final sync failed - the complete state of that commit. Histories also cover transactions that live in the overflow area of a full file and opens that lower the limit of a file whose free tail touches the file end; after the failures stopped the state of the open File is compared with a fresh open of the disk contents (memory-vs-disk) and every later commit is decoded by the independent decoder. A Commit may succeed under an injected failure only if the first failure came after the header sync (maintenance step after the commit point).",
   note="Faults are injected at the vfs boundary; reads are not failed; failure kinds as listed.",
   ref="5/C08"),
 "C09": dict(level="model_checking", engine="sched+vsync",
   technique="stateless enumeration of all thread schedules up to a preemption bound on the real lock/commit code under a controlled scheduler, plus happens-before race detection inside those schedules",
   text="The library is rebuilt with package sync replaced by scheduler-visible shims; reader/writer/closer scenarios (1-2 writers ending in commit, rollback, close or failed commit; 0-2 readers; File.Close racing with them; files opened plainly or through open-time grow/shrink/unbound maintenance transactions) are executed under every schedule with at most the stated number of preemptions. Oracle: at most one active write transaction, readers not excluded by an open write transaction, no deadlock (exact), lock state idle and Begin/BeginReadonly/Close completing at the end. The same schedules are run in a -race build in which the scheduler's hand-offs are hidden from the detector and the program's own synchronisation is reported, so a data race is detected per execution.",
   note="Sequentially consistent interleavings at synchronisation/I/O granularity; preemption-bounded; unsynchronised accesses are caught by the race pass, not by weak-memory exploration.",
   ref="5/C09"),
 "C16": dict(level="fault_enumeration", engine="simdisk",
   technique="exhaustive enumeration of structured header corruptions over committed images from an explicit-state BFS",
   text="For the cleanly closed image of every distinct logical state reached by a commit or reopen in a BFS: all 672 single-bit flips of each header, three families of byte-prefix tears at every offset, zero/0xFF/0xDB fill, every field replaced by 0/1/max/other slot's value; for every fourth image also both headers damaged (cross product of a reduced set) and crafted valid txid pairs around wrap-around followed by real commits. Oracle: one header damaged: Open succeeds and exposes exactly the model state of the intact header's txid; both damaged: Open returns an error and releases the lock; never a panic. Images are also taken after aborted transactions that flushed pages; for those, with the newest header damaged, only \"Open does not panic, hang or leak the lock\" is demanded (the older state may have been recycled), with the older header damaged the full oracle applies.",
   note="Random multi-byte damage is replaced by complete structured families; FNV-32a collisions of multi-byte damage are out of reach of enumeration.",
   ref="5/C16"),
 "C01": dict(level="fault_enumeration", engine="simdisk",
   technique="exhaustive crash-image enumeration (I/O boundaries x lost-write subsets x header tear offsets) over histories selected from an explicit-state BFS of the real implementation",
   text="For one representative history per distinct I/O shape found by a BFS over transaction histories: every I/O boundary of the last operation, every subset of the un-synced page writes/truncates (all 2^p up to a cap), and every byte-prefix tear of a pending header write. Each image is reopened through the normal open path; the recovered header txid must be the last successful commit (or the commit in flight), root and every live page must match that transaction's model state byte for byte, and two probe transactions (allocate/write/commit; overwrite/free/allocate/commit/reopen) must leave every other recovered page unchanged. The same enumeration is applied to opens that change the maximum size (grow, shrink, unbounded, with and without preallocation) after seeds with free tails, fragmented free lists, overwrite mappings, full files and files living in their overflow area: every crash image of the open-time transactions is recovered by a plain open (limit must be the old or the new one) and by an open that asks for the new limit again (limit must be the new one).",
   note="Page-granular persistence except the 84-byte header; SyncNone excluded; crash points start after the file has been created; a write is durable once a later Sync completed. One history per I/O shape (shape = op kinds, target classes, pending-set size, coarse state features), not every history.",
   ref="5/C01"),
 "C04": dict(level="model_checking",
   technique="explicit-state BFS over allocation histories of the real implementation with an ownership oracle on every returned page id, plus an allocate-everything sweep in every reached state",
   text="BFS over begin(+overflow)/Alloc/AllocN(2|7|avail|avail+1)/overwrite/free(first|middle|last|every other)/alloc-then-free-new/flush/commit/rollback/reopen histories on bounded and unbounded files. Every id returned by Alloc/AllocN is checked against the reference model (not live, not freed-committed, not allocated-unfreed, not an internal page per hook snapshot, distinct, >= 2); in every reached state a twin run allocates everything that is allocatable, writes it, commits and re-verifies every live page's self-identifying pattern. Start states: the empty file, hand-made seeds (free tail, fragmented, overwritten, full, overflow in use, inside an open overflow transaction, (thorough tier) fresh files whose first fill leaves 1, 2, 3 or 5 pages) and the 575 harvested states of props/harvest.json (judged seed histories, multi-root search). After every commit the raw disk image is decoded by an independent decoder (engine/diskfmt): live pages, both free lists, free-list pages, mapping pages and overwrite pages must partition the page range, and no page below the file end may be owned by nobody.",
   note="Depth-bounded; internal pages are taken from the library's own bookkeeping (hook snapshot), live pages from the independent model.",
   ref="5/C04"),
 "C07": dict(level="model_checking",
   technique="explicit-state BFS with differential (twin) oracle: state after an aborted transaction vs. state before it began",
   text="For every Rollback/Close transition of the BFS graph (every aborted body the alphabet can build up to the depth bound, after every prefix history) the logical file (read state, free pages as sets, end markers, meta area, WAL mapping, stats, lock state) must equal that of the quiescent state where the transaction began; where the in-memory representation still differs, both twins are driven through a fixed set of continuations and must return identical ids, errors, bytes and logical states. After every abort the allocator and mapping state of the open File is also compared with what a fresh open of the current disk contents arrives at (memory-vs-disk); aborted one-operation bodies are run from every 8th (thorough: every) harvested state.",
   note="Failed commits are covered by C08 (fault plans); depth-bounded.",
   ref="5/C07"),
 "C10": dict(level="model_checking",
   technique="explicit-state BFS with differential (twin) oracle across close/reopen",
   text="Reopen is an operation of the BFS alphabet at every quiescent state; the logical file before and after must be identical (root, page contents, free pages as sets, end markers, meta area, WAL mapping, FileStats), and instances whose in-memory representation differs are driven through continuations that must behave identically. The wide pass includes an alignment sweep (k one-page free regions in front of a 300-page region, k in a range around the page boundary, thorough: 1..360) and fresh files whose pre-sized meta area gives a free region of 254/255/256 pages.",
   note="Depth-bounded; wide encodings (multi-page free lists / mappings, 255+ regions) are covered by the wide-history pass.",
   ref="5/C10"),
 "C11": dict(level="model_checking",
   technique="explicit-state BFS on bounded files with a capacity probe (allocate until failure on a twin) in every quiescent state",
   text="On bounded configurations without overflow transactions, in every quiescent state of the BFS: pages that can really be allocated (probe transaction on a twin) + live pages (model) + meta area (FileStats) + 2 == maximum; FileStats (DataAllocated, MetaArea, MetaAllocated, MaxSize) equal reality and what the Observer was told; the simulated disk's maximum extent never exceeds the maximum size. The probe also checks that the meta pages not on the meta free list are exactly those holding free list, mapping or overwrite copies (no leaked meta pages).",
   note="Depth-bounded histories; bounded page alphabets.",
   ref="5/C11"),
 "C03": dict(level="model_checking",
   technique="explicit-state BFS over operation histories of the real implementation vs. reference model, plus bounded schedule enumeration of the background writer",
   text="Breadth-first explicit-state search over every history of the page API alphabet (begin/alloc/write full|partial|load/free/flush/checkpoint/set-root/commit/rollback/reopen) up to a depth bound on several configurations, executed on the real (scheduler-instrumented) library over a simulated disk, from the empty file and from seed states (two pages, overwritten pages, fragmented free list, 14 overwritten pages, a page freed while its contents live in an overwrite page); after every transaction end and reopen a read transaction is compared byte-for-byte with a map-of-pages model, and inside the writing transaction every write is read back.",
   note="Bounded: page contents from a 3-symbol alphabet, roles first/second/last, depth bound reported in evidence; background writer runs under the cooperative scheduler's default schedule in the BFS and under enumerated schedules in the writer-timing pass.",
   ref="5/C03"),
}

NOT_YET = {}

def main():
    here = os.path.dirname(os.path.abspath(__file__))
    root = os.path.dirname(here)
    props = [json.loads(l)["id"] for l in open(os.path.join(root, "properties.jsonl"))]
    na_path = os.path.join(root, "scripts", "not_applicable.json")
    na = json.load(open(na_path)) if os.path.exists(na_path) else {}
    hooks_commits = []
    try:
        out = subprocess.check_output(["git", "-C", "/repo", "log", "--format=%H %s"], text=True)
        hooks_commits = [l.split()[0] for l in out.splitlines() if l.split(" ", 1)[1].startswith("verif:")]
    except Exception:
        pass
    baseline = json.load(open("/root/.vp/BASELINE.json"))["cmd"]
    m = {
      "version": 1,
      "setup_cmd": "bash scripts/setup.sh",
      "hooks": {
        "guard": "verif",
        "enable": "go build -tags verif -overlay <.build/<hash>/overlay.json written by cmd/instr> (sync -> verif/engine/vsync, sync/atomic -> vatomic, go stmt -> scheduler thread, map range -> vdet.Keys)",
        "baseline_off_cmd": baseline,
        "source_commits": hooks_commits,
        "add_only": True,
      },
      "engines": [
        {"name": "sched+vsync", "path": "engine/sched", "serves_properties": ["C02", "C09", "C13", "C03"], "kind_free_text": "cooperative deterministic scheduler over the library's real sync operations; stateless DFS over recorded choice points with preemption/deviation bounds"},
        {"name": "xstate", "path": "engine/xstate", "serves_properties": ["C03", "C04", "C07", "C10", "C11", "C14", "C15"], "kind_free_text": "explicit-state BFS, canonical state key from hook snapshots + disk image, successors by replay on fresh instances"},
        {"name": "simdisk", "path": "engine/simdisk", "serves_properties": ["C01", "C06", "C08", "C16"], "kind_free_text": "in-memory vfs.File with op log, exhaustive crash-image and fault-plan enumeration"},
      ],
      "checks": [],
      "not_applicable": [],
      "notes": "All checks rebuild from /repo's working tree through scripts/build.sh (content-hash keyed). See DESIGN.md.",
    }
    for pid in props:
        if pid in CHECKS:
            c = CHECKS[pid]
            m["checks"].append({
              "property_id": pid,
              "quick_cmd": f"bash scripts/check.sh {pid} quick",
              "thorough_cmd": f"bash scripts/check.sh {pid} thorough",
              "evidence_file": f"/verif/evidence/{pid}.json",
              "replay_cmd_template": f"bash scripts/check.sh replay {pid} {{path}}",
              "engine": c.get("engine", "xstate"),
              "level_claimed": {"category": c["level"], "text": c["text"], "design_ref": c["ref"]},
              "level_note": c["note"],
              "technique": c["technique"],
            })
        else:
            m["not_applicable"].append({"property_id": pid, "reason": na.get(pid, "check not built yet in this session (designed in DESIGN.md section 5); not claimed until it runs")})
    json.dump(m, open(os.path.join(root, "MANIFEST.json"), "w"), indent=1)
    print("wrote MANIFEST.json:", len(m["checks"]), "checks,", len(m["not_applicable"]), "not applicable")

main()
