#!/bin/bash
# usage: scripts/check.sh <PROP> <quick|thorough>      run one check
#        scripts/check.sh replay <PROP> <file>         replay one violation
set -uo pipefail
VERIF=${VERIF_ROOT:-/verif}
cd "$VERIF"
if [ "${1:-}" = replay ]; then
  B=$("$VERIF/scripts/build.sh") || exit 2
  W=worker
  case "$2" in C18) W=worker-plain;; esac
  exec "$B/$W" replay "$2" "$3"
fi
PROP=$1; TIER=${2:-${VERIF_TIER:-quick}}
case "$PROP" in C09|C13|XSRND) export VERIF_NEED_RACE=1;; esac
B=$("$VERIF/scripts/build.sh") || { echo "ENGINE-ERROR property=$PROP build failed"; exit 2; }
export VERIF_BUILD_DIR="$B"
W=worker
# C18 exercises the real Open on the real file system: plain (uninstrumented) build
case "$PROP" in C18) W=worker-plain;; esac
exec "$B/$W" check "$PROP" --tier "$TIER"
