#!/bin/bash
# usage: scripts/check.sh <PROP> <quick|thorough>      run one check
#        scripts/check.sh replay <PROP> <file>         replay one violation
set -uo pipefail
VERIF=${VERIF_ROOT:-/verif}
cd "$VERIF"
if [ "${1:-}" = replay ]; then
  B=$("$VERIF/scripts/build.sh") || exit 2
  exec "$B/worker" replay "$2" "$3"
fi
PROP=$1; TIER=${2:-${VERIF_TIER:-quick}}
case "$PROP" in C09|C13) export VERIF_NEED_RACE=1;; esac
B=$("$VERIF/scripts/build.sh") || { echo "ENGINE-ERROR property=$PROP build failed"; exit 2; }
export VERIF_BUILD_DIR="$B"
exec "$B/worker" check "$PROP" --tier "$TIER"
