#!/bin/bash
# usage: run_on_mutant.sh <seeded-ID> <check> [<check>...]  -- applies seeded/<ID>/patch.diff to /repo,
# runs the quick checks, reverts /repo. Prints one line per check.
set -uo pipefail
ID=$1; shift
cd /verif
git -C /repo diff --quiet || { echo "/repo is dirty"; exit 2; }
git -C /repo apply "/verif/seeded/$ID/patch.diff" || { echo "patch does not apply"; exit 2; }
trap 'git -C /repo checkout -- . ' EXIT
for c in "$@"; do
  out=$(VERIF_EVIDENCE_DIR=/verif/.build/mutant-evidence VERIF_ROOT=/verif timeout 1500 bash scripts/check.sh "$c" quick 2>/dev/null); rc=$?
  nv=$(echo "$out" | grep -c '^VIOLATION' || true)
  first=$(echo "$out" | grep -m1 '^VIOLATION' | cut -c1-400)
  echo "mutant=$ID check=$c exit=$rc violations=$nv $first"
  cls=$(echo "$first" | sed -n 's/.*class=\([^ ]*\).*/\1/p')
  printf '%s\t%s\t%s\t%s\t%s\t%s\n' "$ID" "$c" "$rc" "$nv" "$cls" "$(git -C /verif rev-parse --short HEAD)" >> /verif/seeded/RESULTS.tsv
done
