#!/bin/bash
# usage: run_on_mutant.sh <seeded-ID> <check> [<check>...]
# Applies seeded/<ID>/patch.diff to a scratch worktree of /repo (never to /repo itself), builds the
# workers against it (VERIF_REPO) and runs the quick checks. Appends results to seeded/RESULTS.tsv.
set -uo pipefail
ID=$1; shift
cd /verif
WT=/root/scratch/mut-$ID
mkdir -p /root/scratch
git -C /repo worktree remove --force "$WT" 2>/dev/null; rm -rf "$WT"
git -C /repo worktree add -q --detach "$WT" HEAD || { echo "cannot create worktree"; exit 2; }
cleanup() { git -C /repo worktree remove --force "$WT" 2>/dev/null; rm -rf "$WT"; git -C /repo worktree prune; rm -rf /verif/.build/mut-"$ID"; }
trap cleanup EXIT
git -C "$WT" apply "/verif/seeded/$ID/patch.diff" || { echo "mutant=$ID patch does not apply to the current tree"; exit 2; }
for c in "$@"; do
  case "$c" in C03|C18) export VERIF_SKIP_PLAIN=0;; *) export VERIF_SKIP_PLAIN=1;; esac
  out=$(VERIF_REPO="$WT" VERIF_EVIDENCE_DIR=/verif/.build/mutant-evidence VERIF_ROOT=/verif timeout 1500 bash scripts/check.sh "$c" ${TIER:-quick} 2>/dev/null); rc=$?
  nv=$(echo "$out" | grep -c '^VIOLATION' || true)
  first=$(echo "$out" | grep -m1 '^VIOLATION' | cut -c1-400)
  echo "mutant=$ID check=$c exit=$rc violations=$nv $first"
  cls=$(echo "$first" | sed -n 's/.*class=\([^ ]*\).*/\1/p')
  printf '%s\t%s\t%s\t%s\t%s\t%s\n' "$ID" "$c" "$rc" "$nv" "$cls" "$(git -C /verif rev-parse --short HEAD)" >> /verif/seeded/RESULTS.tsv
done
