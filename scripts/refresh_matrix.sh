#!/bin/bash
# Re-runs every seeded change (all rounds and the revert-of-fix suite) against the quick tier of the
# check of its own property and of every check that reported it before; results are appended to seeded/RESULTS.tsv.
cd /verif
python3 - <<'PY' > /root/scratch/matrix_pairs.txt
import os, json, collections
res = collections.defaultdict(set)
for line in open('/verif/seeded/RESULTS.tsv'):
    f = line.rstrip('\n').split('\t')
    if len(f) >= 3 and f[1][0] == 'C':
        if f[2] == '1': res[f[0]].add(f[1])
for name in sorted(os.listdir('/verif/seeded')):
    d = '/verif/seeded/' + name
    if not os.path.exists(d + '/patch.diff'): continue
    own = name[:3] if name[0] == 'C' else json.load(open(d + '/meta.json'))['property']
    checks = sorted(res[name] | {own})
    print(name, ' '.join(checks))
PY
while read name checks; do
  ./scripts/run_on_mutant.sh $name $checks 2>&1 | cut -c1-220
done < /root/scratch/matrix_pairs.txt
