#!/usr/bin/env python3
"""Regenerates seeded/<name>/meta.json and the detection table (printed as markdown)
from seeded/RESULTS.tsv (appended by scripts/run_on_mutant.sh) and seeded/<name>/confirm.json."""
import json, os, collections

ROOT = os.path.dirname(os.path.dirname(os.path.abspath(__file__)))
SEED = os.path.join(ROOT, "seeded")

NOTES = {
 "C03": "needed the 'overwritten' seed state (missed from the empty file at depth 7)",
 "C04": "needed the 'free-tail' seed on the configuration with a pre-sized meta area + allocation sweep",
 "C05": "needed unfinished events (WPart) + drain probe after reopen",
 "C06": "needs a commit that fails after AllocN succeeded and a retry: C12 on the 17-page 4 KiB file, C06's fault pass",
 "C10": "needed the wide-encoding histories",
 "C12": "needed tiny 4 KiB-page configurations",
 "C13": "needed harness yield points + gated producer scenario",
 "C14": "needs an I/O fault during the resizing open: C08 with seeds; C14 itself has no faults",
 "C15": "needed the receiver state 'reader with an open writer'",
 "C16": "needed a 64 KiB-page configuration",
 "C17": "needed the fill-until-error pass in C17",
 "C18": "needed read transactions + asynchronous Close in the sequence alphabet",
 "C01b": "needed the eager-writer variant of the crash enumeration (writer drains after Flush)",
 "C02b": "C03 needed seed depth 6 in quick",
 "C04b": "same region-encoding family as C10; C04 has no 255-page runs",
 "C06b": "C06 needed the ReadAll operation in the queue alphabet to reach a partial ACK",
 "C05b": "same change as seeded C06 (found independently); needs an I/O failure inside the flush commit: C06's fault pass",
 "C10b": "needed the 'overflow-used' seed (full file whose meta area extends into the overflow area)",
 "C11b": "needed a configuration whose maximum size is not a multiple of the page size",
 "C13b": "C13 catches it in the thorough tier only (back-pressure scenario on a bounded file, ~750 choice points); in the quick tier the leaked lock is reported by C12 as an exact deadlock",
 "C14b": "OBSOLETE on the current tree: the change relied on doGrowFile truncating to the new limit, which the repair of D16 (found through this agent's side note) removed; kept for the record",
 "C15b": "needed a fresh receiver per matrix cell (an earlier Load in the same sequence set the flag the change tests)",
 "C16b": "needed histories in which a commit releases overflow pages and truncates the file (overflow seed + free operations)",
 "C01c": "needed a transaction with more queued writes than one writer batch (1100 pages): C01's huge-transaction histories with the coarse crash enumeration",
 "C02c": "double finish of a transaction: reported by C15 (misuse) as a panic of the unlocked mutex; C02's scenarios contain no misuse",
 "C03c": "C03's wide pass needed the 'wide-overwritten' seed: the 11-operation history of D6 is beyond depth 8 from the empty file",
 "C04c": "needed a search that starts inside an open overflow-enabled transaction (seed 'overflow-tx-open'); reported by the independent on-disk decoder",
 "C06c": "same writer-batch family as C01c; C06 needed a 1200-page write buffer and one event that fills it",
 "C07c": "leaked statsLock after an aborted transaction with an Observer: exact deadlock in the first transaction that follows",
 "C08c": "needed an open that lowers the limit of a file whose free tail touches the file end (configuration with a pre-sized meta area) under faults, and the memory-vs-disk oracle",
 "C09c": "needed the scenario 'reader parked during commit 1, woken while commit 2 starts' with the race pass at the full preemption bound; the thorough tier of the old scenario set missed it as well",
 "C10c": "wide-encoding histories (FreeRun of 255 pages)",
 "C12c": "same region-encoding change as C10c/C16c (three agents found it independently); C12's region-size sweep does not produce a free region of exactly 255 pages, C10 does",
 "C13c": "race between Reader.Done/ACK closing a read transaction and the producer's commit, Observer installed",
 "C16c": "same region-encoding change; not a header-selection defect, C10 owns it",
 "C02d": "one-token change in a function that one of my own repairs had added (waLog.uses walks keys instead of values): needs overflow pages + a larger limit; reported by C14's allocation sweep after a resize, C02 has no resize",
 "C05d": "needed queues whose tail page is exactly full with several event starts, reopened (seeded search 'full-tail-page' in C05/C17, half- and quarter-page event sizes); C12 reported it first through the harvested queue states",
 "C06d": "fourth independent rediscovery of the 255-page region encoding; C10 owns it",
 "C10d": "off-by-one in the bounds check my repair D24 had added: needs a region of 255+ pages whose 12-byte entry ends exactly at the end of a free-list page (125 small regions before it): C10's alignment sweep over k one-page regions + one 300-page region",
 "C11d": "same encoding change, but its report pointed at a fresh file with InitMetaArea=256 (a 255-page meta free region from the start): configurations I254/I255/I256 and the meta-leak oracle in C11's capacity probe",
 "C15d": "needed finished transactions that had run CheckpointWAL (receiver states committed+checkpoint, rolledback+checkpoint)",
 "C17d": "Active counter with the read pointer in front of the head pointer: boundary shapes of C17",
 "C18d": "shared instead of exclusive lock on the wait-flag path: needed a holder that was itself opened with the wait flag (operation OpenA(wait flag, file free))",
 "C18b": "needs an I/O failure during a resizing open: C08 reports the hang as an exact deadlock; C18 (real file system) cannot inject it",
}

NOTES.update({
 "C01e": "spare free-list page at the end of the chain not written: needs a free list that fills its pages exactly (123 regions at 1 KiB) on recycled list pages, then a reopen; not a crash effect, reported by the alignment sweeps of C10 and C11's capacity probe (the same sweep k one-page regions + a wide one that C10d needed); C01's histories have no 123-region free lists",
 "C03e": "Page.Free drops the overwrite page but keeps the mapping entry: needs a page that is overwritten, freed before any checkpoint, re-allocated and written in place (7 operations past the 'overwritten' seed, one more than C03's quick seed depth): seed 'overwritten-freed' added to C03 (both tiers)",
 "C04e": "same effect as seeded C07 (page back on the free list twice after a rollback) through a different site (dataAllocator.Free fast path); no strengthening needed",
 "C07e": "mergeRegionLists returns its argument when the second list is empty, so a failed commit has already cut the live free list: needs a region straddling the limit, a transaction that frees nothing and a commit that fails: an I/O failure, so C08's shrinking-open-under-faults run with the memory-vs-disk oracle reports it; C07 injects no failures (its 'failed Commit' cases are the ones the API produces without a fault)",
 "C08e": "restoreMeta forgets the 'stale header may be on disk' flag although zeroing it failed: needs a failure window of three I/O calls (final sync, forced sync of the rollback, zero-header write): reported by C08 as an open that fails although the failures have stopped (class fault/open-failed-without-failure)",
 "C12e": "MISSED (not reported by any check). The demonstration calls the meta allocator directly (5 pages wanted, 2 data pages left behind the end marker of a fresh file). Through the API the changed branch needs one meta request of n >= 2 pages (two overwrite-mapping pages = more than ~72 overwritten pages at 1 KiB in one commit, or two free-list pages) that meets 0 < available data pages < n on a bounded file whose data end marker has never reached the limit; single-page requests (every overwrite page) drain the data area in power-of-two steps and only ever see available = 0 or >= n. Histories 'fill a fresh file up to its last k pages, then overflow-enabled transactions overwriting 1, 2 or all pages' (64-page file, k = 1,2,3,5; files of 2m+3 pages with m = 62..65 overwritten pages, k = m+1) give identical allocator traces with and without the change (check.sh replay XTRC). Finding the (file size, overwrite count, leftover) triple is a two-dimensional sweep over files of 150+ pages that no check has; the first-fill seeds were added to C04's thorough tier and generic 'M<n>' configurations to the page driver, but the sweep itself was not built in the time left",
 "C13e": "read transactions check page ids against the live end marker: C13's race pass reports the unsynchronised read against allocFromArea of the producer's commit; C15 reports the API-level consequence (reader with an open writer gets a page beyond its snapshot, the state seeded C15 needed); C02's scenarios never ask for an id beyond the snapshot",
 "C14e": "initial mapping no longer covers a file that is larger than its limit: needs a shrinking open that leaves the free-list page behind the new limit, then a plain open; C14's memory-vs-disk oracle (second open of the current disk contents) and C10's reopen report it; no strengthening needed",
})
NEEDS = {
 "C01e": "free list that fits exactly k list pages while k+1 are reserved, spare page recycled from an older free list, then reopen and allocate",
 "C03e": "overwrite a committed page, free it before any checkpoint, allocate the same id again, write it, read it (also after reopen)",
 "C04e": "take a page from the free list, free it in the same transaction, roll back, allocate and commit it, allocate again",
 "C07e": "bounded file with a free region straddling the limit and ending at the end marker; a transaction that frees no page; its Commit fails on write or fsync; one further successful commit",
 "C08e": "commit fails at its final sync and the next two I/O calls (forced sync, zero-header write) fail too; failures stop; the next transaction re-uses the pages and fails or crashes before its header; reopen",
 "C12e": "white-box only: meta allocator asked for more pages than the data pages left behind the end marker of a fresh, never cycled, bounded file, inside an overflow-enabled transaction",
 "C13e": "a reader asks for a page id while a producer commit that moves the data end marker sits between allocator.Commit and the exclusive lock",
 "C14e": "meta area created at the end of the data area (no InitMetaArea), shrink below the free-list page, close, plain open",
}

def main():
    res = collections.defaultdict(dict)
    p = os.path.join(SEED, "RESULTS.tsv")
    for line in open(p):
        f = line.rstrip("\n").split("\t")
        if len(f) < 5: continue
        res[f[0]][f[1]] = dict(exit=int(f[2]), violations=int(f[3]), cls=f[4], at=f[5] if len(f) > 5 else "")
    rows = []
    for name in sorted(os.listdir(SEED)):
        d = os.path.join(SEED, name)
        if not os.path.isdir(d) or not os.path.exists(os.path.join(d, "confirm.json")): continue
        conf = json.load(open(os.path.join(d, "confirm.json")))
        demos = []
        for root, _, fs in os.walk(d):
            for f in fs:
                if f.startswith("zz_demo") and f.endswith("_test.go"):
                    demos.append(os.path.relpath(os.path.join(root, f), d))
        rep = os.path.join(d, "zz_demo_REPORT.md")
        caught = [c for c, r in res.get(name, {}).items() if r["exit"] == 1]
        missed = [c for c, r in res.get(name, {}).items() if r["exit"] == 0]
        summary = ""
        if os.path.exists(rep):
            for l in open(rep):
                l = l.strip()
                if l and not l.startswith("#"):
                    summary = l[:300]; break
        meta = {
          "seeded_change": name,
          "property_broken": {"C12e": "C04 (page handed out twice inside the allocator; the author was asked for C12)"}.get(name, name[:3]),
          "author": "independent sub-agent given only the property text and a scratch worktree of /repo",
          "patch": "patch.diff", "demonstration": demos,
          "report": "zz_demo_REPORT.md" if os.path.exists(rep) else None,
          "needs_to_manifest": NEEDS.get(name, "see the report's section on what it needs to manifest"),
          "confirmed_by_me": {
            "commands": ["go test -vet=off -count=1 ./...   (change applied, demonstration moved aside)",
                         "go test -vet=off -count=1 %s -run 'ZZ|zz|Demo' <pkg>   (change applied)" % conf.get("tags", ""),
                         "same after `git apply -R patch.diff`"],
            "suite_with_change_exit": conf["suite_with_change_exit"],
            "demo_with_change_exit": conf["demo_with_change_exit"],
            "demo_without_change_exit": conf["demo_without_change_exit"]},
          "quick_checks_reporting_it": {c: res[name][c]["cls"] for c in caught},
          "quick_checks_run_without_alarm": missed,
          "note": NOTES.get(name, ""),
          "how_run": "bash scripts/run_on_mutant.sh %s <check>..." % name,
        }
        json.dump(meta, open(os.path.join(d, "meta.json"), "w"), indent=1)
        files = ""
        pd = os.path.join(d, "patch.diff")
        for l in open(pd):
            if l.startswith("+++ b/"): files += l[6:].strip() + " "
        rows.append((name, files.strip(), ", ".join("%s (%s)" % (c, res[name][c]["cls"][:60]) for c in caught) or "-", ", ".join(missed) or "-", NOTES.get(name, "")))
    print("| seeded | file | reported by (quick) | run without alarm | note |")
    print("|---|---|---|---|---|")
    for r in rows:
        print("| %s | %s | %s | %s | %s |" % r)
    print()
    print("| revert of fix | property | commit | reported by (quick) |")
    print("|---|---|---|---|")
    for name in sorted(os.listdir(SEED)):
        mp = os.path.join(SEED, name, "meta.json")
        if not name.startswith("RD") or not os.path.exists(mp): continue
        m = json.load(open(mp))
        caught = [c for c, r in res.get(name, {}).items() if r["exit"] == 1]
        missed = [c for c, r in res.get(name, {}).items() if r["exit"] == 0]
        print("| %s | %s | %s | %s%s |" % (name, m["property"], m["commit"], ", ".join("%s (%s)" % (c, res[name][c]["cls"][:50]) for c in caught) or "-", (" ; no alarm: " + ", ".join(missed)) if missed else ""))

main()
