#!/bin/bash
# usage: confirm_mutant.sh <ID> [worktree] [name]   -- confirms a seeded change in its scratch worktree and
# stores patch + demonstration under /verif/seeded/<ID>/. Prints a JSON summary line.
set -uo pipefail
ID=$1; WT=${2:-/tmp/wt/$ID}; NAME=${3:-$ID}
export GOFLAGS=-mod=mod GOPROXY=off GOSUMDB=off GOTOOLCHAIN=local
OUT=/verif/seeded/$NAME; mkdir -p "$OUT"
cd "$WT" || exit 2
git diff > "$OUT/patch.diff"
[ -s "$OUT/patch.diff" ] || { echo "no tracked change in $WT"; exit 2; }
DEMOS=$(git ls-files --others --exclude-standard | grep 'zz_demo' || true)
for f in $DEMOS; do mkdir -p "$OUT/$(dirname $f)"; cp "$f" "$OUT/$f"; done
TESTS=$(echo "$DEMOS" | grep '_test.go$' || true)
[ -n "$TESTS" ] || { echo "no demo test file"; exit 2; }
TAGS=""; grep -lq 'build verif' $TESTS 2>/dev/null && TAGS="-tags verif"
# 1. suite with the change (demo files moved aside)
mkdir -p /tmp/.aside-$NAME; for f in $TESTS; do mkdir -p /tmp/.aside-$NAME/$(dirname $f); mv $f /tmp/.aside-$NAME/$f; done
go test -vet=off -count=1 ./... > "$OUT/suite_with_change.log" 2>&1; SUITE=$?
for f in $TESTS; do mv /tmp/.aside-$NAME/$f $f; done; rm -rf /tmp/.aside-$NAME
# 2. demo with the change -> must fail
PKGS=$(for f in $TESTS; do echo "./$(dirname $f)"; done | sort -u)
go test -vet=off -count=1 $TAGS -run 'ZZ|zz|Demo' $PKGS > "$OUT/demo_with_change.log" 2>&1; DEMO_WITH=$?
# 3. demo without the change -> must pass
git apply -R "$OUT/patch.diff"   # (not git stash: the stash is shared between worktrees)
go test -vet=off -count=1 $TAGS -run 'ZZ|zz|Demo' $PKGS > "$OUT/demo_without_change.log" 2>&1; DEMO_WITHOUT=$?
git apply "$OUT/patch.diff"
echo "{\"id\":\"$NAME\",\"suite_with_change_exit\":$SUITE,\"demo_with_change_exit\":$DEMO_WITH,\"demo_without_change_exit\":$DEMO_WITHOUT,\"tags\":\"$TAGS\"}" | tee "$OUT/confirm.json"
