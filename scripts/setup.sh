#!/bin/bash
# Offline setup after a fresh restore: builds cmd/instr and warms the build
# cache for the three worker variants from /repo's current tree.
set -euo pipefail
cd "$(dirname "$0")/.."
export GOFLAGS=-mod=mod GOPROXY=off GOSUMDB=off GOTOOLCHAIN=local
mkdir -p bin .build evidence replays
go build -o bin/instr ./cmd/instr
VERIF_NEED_RACE=1 bash scripts/build.sh
echo "setup ok"
