#!/bin/bash
# Builds the verification binaries from /repo's CURRENT working tree into
# /verif/.build/<hash>/ and prints that directory. Rebuilds only when the
# sources of /repo or /verif changed (content hash).
#   worker        instrumented (sync -> vsync overlay), tag verif
#   worker-plain  uninstrumented, tag verif (conformance pass, C18)
#   worker-race   instrumented, -race (built only when VERIF_NEED_RACE=1)
set -euo pipefail
VERIF=${VERIF_ROOT:-/verif}
REPO=${VERIF_REPO:-/repo}
cd "$VERIF"
export GOFLAGS=-mod=mod GOPROXY=off GOSUMDB=off GOTOOLCHAIN=local
export GOCACHE=${GOCACHE:-$HOME/.cache/go-build}
mkdir -p .build bin

H=$( { cd "$REPO" && find . -name '*.go' -not -path './.git/*' -print0 | sort -z | xargs -0 sha256sum; cat go.mod go.sum;
       cd "$VERIF" && find engine props cmd -name '*.go' -print0 | sort -z | xargs -0 sha256sum; cat go.mod; } | sha256sum | cut -c1-20)
B="$VERIF/.build/$H"

exec 9>"$VERIF/.build/lock"
flock 9

# a repository other than /repo (scratch copy for mutation runs): alternative go.mod with the replace pointing there
MODFLAG=""
if [ "$REPO" != "/repo" ]; then
  sed "s#=> /repo#=> $REPO#" go.mod > ".build/alt-$H.mod"; cp go.sum ".build/alt-$H.sum"
  MODFLAG="-modfile=$VERIF/.build/alt-$H.mod"
fi

if [ ! -x bin/instr ] || [ -n "$(find cmd/instr -newer bin/instr -name '*.go' 2>/dev/null)" ]; then
  go build -o bin/instr ./cmd/instr >&2
fi

if [ ! -x "$B/worker" ] || { [ ! -x "$B/worker-plain" ] && [ "${VERIF_SKIP_PLAIN:-0}" != 1 ]; }; then
  rm -rf "$B"; mkdir -p "$B"
  if ! ./bin/instr -repo "$REPO" -out "$B" >"$B/instr.log" 2>&1; then
    echo "ENGINE-ERROR instrumentation failed (does /repo compile?):" >&2; cat "$B/instr.log" >&2; rm -rf "$B"; exit 2
  fi
  if ! go build $MODFLAG -tags verif -overlay "$B/overlay.json" -ldflags "-X verif/engine/core.Instrumented=1" -o "$B/worker" ./cmd/worker >"$B/build.log" 2>&1; then
    echo "ENGINE-ERROR instrumented build failed:" >&2; cat "$B/build.log" >&2; rm -rf "$B"; exit 2
  fi
  if [ "${VERIF_SKIP_PLAIN:-0}" != 1 ] && ! go build $MODFLAG -tags verif -o "$B/worker-plain" ./cmd/worker >"$B/build-plain.log" 2>&1; then
    echo "ENGINE-ERROR plain build failed:" >&2; cat "$B/build-plain.log" >&2; rm -rf "$B"; exit 2
  fi
fi
if [ "${VERIF_NEED_RACE:-0}" = 1 ] && [ ! -x "$B/worker-race" ]; then
  if ! go build $MODFLAG -race -tags verif -overlay "$B/overlay.json" -ldflags "-X verif/engine/core.Instrumented=1" -o "$B/worker-race" ./cmd/worker >"$B/build-race.log" 2>&1; then
    echo "ENGINE-ERROR race build failed:" >&2; cat "$B/build-race.log" >&2; exit 2
  fi
fi
# drop superseded builds (only builds of /repo itself are pruned/prune)
# (builds younger than three hours may belong to a mutation run on a scratch checkout that is still going on)
[ "$REPO" = "/repo" ] && for d in "$VERIF"/.build/*/; do
  d=${d%/}
  [ "$d" = "$B" ] && continue
  [ -n "$(find "$d" -maxdepth 0 -mmin -180 2>/dev/null)" ] && continue
  rm -rf "$d"
done
echo "$B"
