// Command instr writes instrumented copies of go-txfile's packages `.` and
// `./pq` (read from the repository's current working tree) plus a `go build
// -overlay` file. Rewrites, all mechanical:
//
//	import "sync"         -> import sync "verif/engine/vsync"
//	import "sync/atomic"  -> import atomic "verif/engine/vatomic"
//	go f(x)               -> vsyncgo.Go(func() { f(x) })
//	for k, v := range m   -> iteration over vdet.Keys(m) (m of map type, found with go/types)
//
// The repository itself is never modified.
package main

import (
	"encoding/json"
	"flag"
	"fmt"
	"go/ast"
	"go/token"
	"go/types"
	"os"
	"path/filepath"
	"sort"
	"strings"

	"golang.org/x/tools/go/packages"
)

type edit struct {
	start, end int // byte offsets; start==end is an insertion
	text       string
	seq        int
}

func main() {
	repo := flag.String("repo", "/repo", "repository root")
	out := flag.String("out", "", "output directory")
	tags := flag.String("tags", "verif", "build tags")
	flag.Parse()
	if *out == "" {
		fmt.Fprintln(os.Stderr, "instr: -out required")
		os.Exit(2)
	}
	if err := run(*repo, *out, *tags); err != nil {
		fmt.Fprintln(os.Stderr, "instr:", err)
		os.Exit(1)
	}
}

func run(repo, out, tags string) error {
	cfg := &packages.Config{
		Mode: packages.NeedName | packages.NeedFiles | packages.NeedCompiledGoFiles |
			packages.NeedSyntax | packages.NeedTypes | packages.NeedTypesInfo | packages.NeedImports,
		Dir:        repo,
		BuildFlags: []string{"-tags=" + tags},
		Env:        append(os.Environ(), "GOFLAGS=-mod=mod", "GOPROXY=off", "GOSUMDB=off", "GOTOOLCHAIN=local"),
	}
	pkgs, err := packages.Load(cfg, ".", "./pq")
	if err != nil {
		return err
	}
	var errs []string
	for _, p := range pkgs {
		for _, e := range p.Errors {
			errs = append(errs, e.Error())
		}
	}
	if len(errs) > 0 {
		return fmt.Errorf("repository does not type-check:\n%s", strings.Join(errs, "\n"))
	}

	overlay := map[string]string{}
	stats := map[string]int{}
	for _, p := range pkgs {
		for i, f := range p.Syntax {
			path := p.CompiledGoFiles[i]
			if strings.HasSuffix(path, "verif_hooks.go") {
				continue
			}
			src, err := os.ReadFile(path)
			if err != nil {
				return err
			}
			res, changed, err := rewrite(p, f, src, stats)
			if err != nil {
				return fmt.Errorf("%s: %v", path, err)
			}
			if !changed {
				continue
			}
			rel, err := filepath.Rel(repo, path)
			if err != nil {
				return err
			}
			dst := filepath.Join(out, "src", rel)
			if err := os.MkdirAll(filepath.Dir(dst), 0o755); err != nil {
				return err
			}
			if err := os.WriteFile(dst, res, 0o644); err != nil {
				return err
			}
			overlay[path] = dst
		}
	}
	js, _ := json.MarshalIndent(map[string]interface{}{"Replace": overlay}, "", " ")
	if err := os.WriteFile(filepath.Join(out, "overlay.json"), js, 0o644); err != nil {
		return err
	}
	sj, _ := json.Marshal(stats)
	if err := os.WriteFile(filepath.Join(out, "instr-stats.json"), sj, 0o644); err != nil {
		return err
	}
	fmt.Printf("instr: %d files rewritten %s\n", len(overlay), sj)
	return nil
}

func rewrite(p *packages.Package, f *ast.File, src []byte, stats map[string]int) ([]byte, bool, error) {
	fset := p.Fset
	off := func(pos token.Pos) int { return fset.Position(pos).Offset }
	var edits []edit
	seq := 0
	add := func(s, e int, text string) {
		edits = append(edits, edit{s, e, text, seq})
		seq++
	}
	needVdet, needGo := false, false

	for _, imp := range f.Imports {
		var repl, defName string
		switch imp.Path.Value {
		case `"sync"`:
			repl, defName = `"verif/engine/vsync"`, "sync"
		case `"sync/atomic"`:
			repl, defName = `"verif/engine/vatomic"`, "atomic"
		default:
			continue
		}
		name := defName
		if imp.Name != nil {
			name = imp.Name.Name
		}
		s := off(imp.Pos())
		add(s, off(imp.End()), name+" "+repl)
		stats["imports"]++
	}

	qual := func(other *types.Package) string {
		if other == p.Types {
			return ""
		}
		return other.Name()
	}

	n := 0
	var rerr error
	ast.Inspect(f, func(node ast.Node) bool {
		switch st := node.(type) {
		case *ast.GoStmt:
			needGo = true
			stats["go"]++
			call := st.Call
			if lit, ok := call.Fun.(*ast.FuncLit); ok && len(call.Args) == 0 {
				add(off(st.Pos()), off(lit.Pos()), "vsyncgo.Go(")
				add(off(lit.End()), off(st.End()), ")")
			} else {
				add(off(st.Pos()), off(call.Pos()), "vsyncgo.Go(func() { ")
				add(off(st.End()), off(st.End()), " })")
			}
		case *ast.RangeStmt:
			tv, ok := p.TypesInfo.Types[st.X]
			if !ok {
				return true
			}
			mt, ok := tv.Type.Underlying().(*types.Map)
			if !ok {
				return true
			}
			n++
			needVdet = true
			stats["maprange"]++
			kt := types.TypeString(mt.Key(), qual)
			xs := string(src[off(st.X.Pos()):off(st.X.End())])
			keyName := fmt.Sprintf("vdetK%d", n)
			okName := fmt.Sprintf("vdetOk%d", n)
			userKey := ""
			if id, ok := st.Key.(*ast.Ident); ok && id.Name != "_" {
				userKey = id.Name
			} else if st.Key != nil {
				if _, isIdent := st.Key.(*ast.Ident); !isIdent {
					rerr = fmt.Errorf("unsupported range key expression at %v", fset.Position(st.Pos()))
					return false
				}
			}
			userVal := ""
			if st.Value != nil {
				if id, ok := st.Value.(*ast.Ident); ok {
					if id.Name != "_" {
						userVal = id.Name
					}
				} else {
					rerr = fmt.Errorf("unsupported range value expression at %v", fset.Position(st.Pos()))
					return false
				}
			}
			var guard string
			if st.Tok == token.DEFINE || st.Tok == token.ILLEGAL {
				if userKey != "" {
					keyName = userKey
				}
				if userVal != "" {
					guard = fmt.Sprintf(" %s, %s := (%s)[%s]; if !%s { continue };", userVal, okName, xs, keyName, okName)
				} else {
					guard = fmt.Sprintf(" if _, %s := (%s)[%s]; !%s { continue };", okName, xs, keyName, okName)
				}
			} else { // plain assignment to existing variables
				guard = fmt.Sprintf(" var %s bool;", okName)
				if userKey != "" {
					guard += fmt.Sprintf(" %s = %s;", userKey, keyName)
				}
				if userVal != "" {
					guard += fmt.Sprintf(" %s, %s = (%s)[%s];", userVal, okName, xs, keyName)
				} else {
					guard += fmt.Sprintf(" _, %s = (%s)[%s];", okName, xs, keyName)
				}
				guard += fmt.Sprintf(" if !%s { continue };", okName)
			}
			header := fmt.Sprintf("for _, %s := range vdet.Keys(%s).([]%s) ", keyName, xs, kt)
			add(off(st.Pos()), off(st.Body.Lbrace), header)
			add(off(st.Body.Lbrace)+1, off(st.Body.Lbrace)+1, guard)
		}
		return true
	})
	if rerr != nil {
		return nil, false, rerr
	}
	if len(edits) == 0 {
		return nil, false, nil
	}

	// extra imports right after the package clause
	var extra string
	if needVdet {
		extra += "; import vdet \"verif/engine/vdet\""
	}
	if needGo {
		extra += "; import vsyncgo \"verif/engine/vsync\""
	}
	if extra != "" {
		e := off(f.Name.End())
		add(e, e, extra)
	}

	sort.Slice(edits, func(i, j int) bool {
		if edits[i].start != edits[j].start {
			return edits[i].start < edits[j].start
		}
		return edits[i].seq < edits[j].seq
	})
	var b strings.Builder
	pos := 0
	for _, e := range edits {
		if e.start < pos {
			return nil, false, fmt.Errorf("overlapping edits at offset %d", e.start)
		}
		b.Write(src[pos:e.start])
		b.WriteString(e.text)
		pos = e.end
	}
	b.Write(src[pos:])
	return []byte(b.String()), true, nil
}
