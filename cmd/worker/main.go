// Command worker is the verification binary. It is built from /repo's current
// working tree (instrumented overlay, tag verif) by scripts/check.sh.
//
//	worker check <PROP> --tier quick|thorough
//	worker replay <PROP> <file>
//	worker child                 (task server used by the coordinator)
package main

import (
	"encoding/json"
	"flag"
	"fmt"
	"os"

	"verif/engine/core"
	"verif/engine/explore"
	"verif/engine/par"
	"verif/props"
)

func main() {
	if len(os.Args) < 2 {
		usage()
	}
	switch os.Args[1] {
	case "child":
		explore.InitRaceLog()
		par.Serve(props.HandleTask)
	case "check":
		fs := flag.NewFlagSet("check", flag.ExitOnError)
		tier := fs.String("tier", "quick", "quick|thorough")
		if len(os.Args) < 3 {
			usage()
		}
		id := os.Args[2]
		fs.Parse(os.Args[3:])
		if t := os.Getenv("VERIF_TIER"); t != "" && *tier == "" {
			*tier = t
		}
		chk := props.Checks[id]
		if chk == nil {
			fmt.Printf("ENGINE-ERROR unknown property %s\n", id)
			os.Exit(2)
		}
		ctx := core.NewCtx(id, *tier, chk.Level)
		ctx.Assumptions = append(ctx.Assumptions, props.Assumptions["*"]...)
		ctx.Assumptions = append(ctx.Assumptions, props.Assumptions[id]...)
		pool := par.NewPool(ctx.Procs, "child")
		chk.Run(ctx, pool)
		pool.Close()
		os.Exit(ctx.Finish())
	case "replay":
		if len(os.Args) < 4 {
			usage()
		}
		chk := props.Checks[os.Args[2]]
		if chk == nil || chk.Replay == nil {
			fmt.Printf("ENGINE-ERROR no replay for %s\n", os.Args[2])
			os.Exit(2)
		}
		raw, err := os.ReadFile(os.Args[3])
		if err != nil {
			fmt.Println("ENGINE-ERROR", err)
			os.Exit(2)
		}
		var doc struct {
			Class   string          `json:"class"`
			Message string          `json:"message"`
			Replay  json.RawMessage `json:"replay"`
		}
		if err := json.Unmarshal(raw, &doc); err != nil {
			fmt.Println("ENGINE-ERROR", err)
			os.Exit(2)
		}
		fmt.Printf("replaying %s (recorded class %s)\n", os.Args[3], doc.Class)
		out := chk.Replay(doc.Replay)
		for _, l := range out {
			fmt.Println(l)
		}
		if len(out) > 0 {
			fmt.Printf("VIOLATION property=%s replay=%s\n", os.Args[2], os.Args[3])
			os.Exit(1)
		}
		fmt.Println("no violation reproduced")
	default:
		usage()
	}
}

func usage() {
	fmt.Fprintln(os.Stderr, "usage: worker check <PROP> --tier quick|thorough | worker replay <PROP> <file> | worker child")
	os.Exit(2)
}
